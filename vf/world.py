"""A small interpreter for sketch histories, shared by the history-quantified checks.

A case is plain data: a configuration dict plus a list of step dicts.  World.apply(step)
executes one step on the real sketches and on the multiset model.  Exceptions raised by
the system under test on in-domain input become Violation('sut-exception').
"""
import os
import shutil
import tempfile
from collections import Counter

import numpy as np
from numba import njit

from vf.common import CEIL, Violation

import sketchnu.countmin as cmmod
from sketchnu.countmin import CountMin, CountMinLinear, CountMinLog8, CountMinLog16
from sketchnu.heavyhitters import HeavyHitters
from sketchnu.hyperloglog import HyperLogLog

CMS_KINDS = ("linear", "log16", "log8")
CLASS_OF = {"linear": CountMinLinear, "log16": CountMinLog16, "log8": CountMinLog8, "hh": HeavyHitters, "hll": HyperLogLog}


@njit
def _numba_seed(s):
    np.random.seed(s)


@njit
def _numba_rand(n):
    return np.random.rand(n)


def numba_seed(s):
    _numba_seed(int(s) % (2**32))


def numba_rand(n):
    return _numba_rand(int(n))


def sut(fn, *a, **kw):
    """Call into the system under test; an exception on in-domain input is a violation."""
    try:
        return fn(*a, **kw)
    except Violation:
        raise
    except Exception as e:  # noqa
        raise Violation(f"SUT raised {type(e).__name__}: {e} in {getattr(fn, '__qualname__', fn)}{_short(a)}", "sut-exception")


def _short(a):
    s = repr(a)
    return s if len(s) < 200 else s[:200] + "...)"


def make_sketch(cfg, shared_memory=False):
    sk = _make_sketch(cfg, shared_memory)
    # the properties speak about the parameters the caller configured: the sketch must carry exactly those
    k = cfg["kind"]
    want = {}
    if k in ("linear", "log16", "log8", "hh"):
        want.update(width=cfg["width"], depth=cfg["depth"])
    if k in ("log16", "log8"):
        want.update(max_count=cfg.get("max_count", CEIL), num_reserved=cfg.get("num_reserved", 1023 if k == "log16" else 15))
    if k == "hh":
        want.update(max_key_len=cfg["max_key_len"])
    if k == "hll":
        want.update(p=cfg["p"])
    for name, v in want.items():
        got = getattr(sk, name, None)
        if got is not None and int(got) != int(v):
            raise Violation(f"{k} sketch requested with {name}={v} was built with {name}={int(got)} ({cfg})", "constructed-parameters-differ")
    return sk


def _make_sketch(cfg, shared_memory=False):
    k = cfg["kind"]
    if cfg.get("factory") and k in ("linear", "log16", "log8"):
        # the documented way to build a count-min sketch: the CountMin() convenience function
        if k == "linear":
            return CountMin("linear", cfg["width"], cfg["depth"], shared_memory=shared_memory)
        if "num_reserved" in cfg:
            return CountMin(k, cfg["width"], cfg["depth"], cfg.get("max_count", CEIL), cfg["num_reserved"], shared_memory)
        return CountMin(k, cfg["width"], cfg["depth"], cfg.get("max_count", CEIL), shared_memory=shared_memory)
    if k == "linear":
        return CountMinLinear(cfg["width"], cfg["depth"], shared_memory=shared_memory)
    if k in ("log16", "log8"):
        cls = CountMinLog16 if k == "log16" else CountMinLog8
        # the class loaders pass all four parameters as np.uint64 (elements of the saved args array): both forms are inputs
        t = np.uint64 if cfg.get("argtype") == "u64" else int
        return cls(t(cfg["width"]), t(cfg["depth"]), t(cfg.get("max_count", CEIL)), t(cfg.get("num_reserved", 1023 if k == "log16" else 15)), shared_memory=shared_memory)
    if k == "hh":
        # the constructor documents (by its own whitelist) numpy integer types for width/depth/max_key_len
        t = {None: int, "u8": np.uint8, "i8": np.int8, "u32": np.uint32, "i32": np.int32, "u64": np.uint64, "i64": np.int64}[cfg.get("argtype")]
        if cfg.get("argtype") == "i8" and max(cfg["width"], cfg["depth"], cfg["max_key_len"]) > 127:
            t = np.int64
        if cfg.get("argtype") == "u8" and max(cfg["width"], cfg["depth"], cfg["max_key_len"]) > 255:
            t = np.int64
        return HeavyHitters(t(cfg["width"]), t(cfg["depth"]), t(cfg["max_key_len"]), cfg.get("phi"), shared_memory=shared_memory)
    if k == "hll":
        # p and seed are converted with np.uint64() by the constructor, and load() itself passes numpy integers
        t = {None: int, "u8": np.uint8, "i8": np.int8, "u16": np.uint16, "u32": np.uint32, "i32": np.int32, "u64": np.uint64, "i64": np.int64}[cfg.get("argtype")]
        seed = cfg["seed"]
        return HyperLogLog(t(cfg["p"]), np.uint64(seed) if cfg.get("argtype") and seed < 2**64 else seed, shared_memory=shared_memory)
    raise ValueError(k)


def decoy_configs(cfg):
    """configurations of the same family that differ from cfg in the parameters that matter"""
    k = cfg["kind"]
    if k == "hll":
        return [{"kind": "hll", "p": p, "seed": cfg["seed"] ^ 1} for p in (7, 16, 11) if p != cfg["p"]]
    if k == "hh":
        return [{"kind": "hh", "width": cfg["width"] + 1, "depth": cfg["depth"] % 3 + 1, "max_key_len": m, "phi": 0.3} for m in (3, 16) if m != cfg["max_key_len"]]
    if k == "linear":
        return [{"kind": "linear", "width": cfg["width"] + 5, "depth": cfg["depth"] % 4 + 1}]
    alt_mc = [x for x in (1000, 10**6, CEIL, 2**40) if x != cfg.get("max_count", CEIL) and (k == "log8" or x > 65535)]
    nr = cfg.get("num_reserved", 15 if k == "log8" else 1023)
    return [{"kind": k, "width": cfg["width"] + 1, "depth": cfg["depth"], "max_count": mc, "num_reserved": nr} for mc in alt_mc[:2]] + [
        {"kind": k, "width": cfg["width"], "depth": cfg["depth"] % 3 + 1, "max_count": cfg.get("max_count", CEIL), "num_reserved": nr + 1}]


def as_type(v, vt):
    """multiplicities as the integer types callers really pass (counts often come out of numpy arrays)"""
    if vt is None or v < 0:
        return v
    if vt == "i64" and v < 2**63:
        return np.int64(v)
    if vt == "u64" and v < 2**64:
        return np.uint64(v)
    if vt == "u32" and v < 2**32:
        return np.uint32(v)
    if vt == "i32" and v < 2**31:
        return np.int32(v)
    if vt == "u8" and v < 256:
        return np.uint8(v)
    if vt == "u16" and v < 65536:
        return np.uint16(v)
    return v


def windows(key, n):
    if len(key) <= n:
        return [key]
    return [key[i : i + n] for i in range(len(key) - n + 1)]


def plant(sk, draws):
    """Overwrite the sketch's batch of uniform draws with the given ones (tiled)."""
    arr = np.resize(np.asarray(draws, np.float64), 2048)
    sk.rand_nums[:] = arr
    sk.rand_ptr = 0


def snapshot(sk, kind):
    """Copy of the full public state (never a view of a shared buffer)."""
    if kind in CMS_KINDS:
        return {"cms": np.array(sk.cms, copy=True), "nar": np.array(sk.n_added_records, copy=True)}
    if kind == "hh":
        return {
            "lhh": np.array(sk.lhh, copy=True),
            "lhh_count": np.array(sk.lhh_count, copy=True),
            "key_lens": np.array(sk.key_lens, copy=True),
            "nar": np.array(sk.n_added_records, copy=True),
        }
    return {"registers": np.array(sk.registers, copy=True)}


def snap_equal(a, b):
    return a.keys() == b.keys() and all(a[k].dtype == b[k].dtype and a[k].shape == b[k].shape and np.array_equal(a[k], b[k]) for k in a)


def snap_diff(a, b):
    out = []
    for k in a:
        if not (a[k].shape == b[k].shape and np.array_equal(a[k], b[k])):
            out.append(k)
    return out


class CellMap:
    """Which counter a key owns in each row, read off a probe sketch after one add
    (does not trust the hash function)."""

    def __init__(self):
        self.probes = {}
        self.cache = {}

    def cells(self, cfg, key):
        kind = cfg["kind"]
        if kind == "hh":
            shape = (kind, cfg["width"], cfg["depth"], cfg["max_key_len"])
            key = key[: cfg["max_key_len"]]
        else:
            shape = (kind, cfg["width"], cfg["depth"])
        ck = (shape, key)
        got = self.cache.get(ck)
        if got is not None:
            return got
        p = self.probes.get(shape)
        if p is None:
            if kind == "hh":
                p = HeavyHitters(cfg["width"], cfg["depth"], cfg["max_key_len"])
            else:
                p = CountMinLinear(cfg["width"], cfg["depth"]) if kind == "linear" else make_sketch(dict(cfg, max_count=CEIL, num_reserved=15))
            self.probes[shape] = p
        if kind == "hh":
            p.lhh[:] = 0
            p.lhh_count[:] = 0
            p.key_lens[:] = 0
            p.add(key, 1)
            tab = p.lhh_count
        else:
            p.cms[:] = 0
            p.add(key, 1)
            tab = p.cms
        if not np.all((tab != 0).sum(axis=1) == 1):
            raise Violation(f"one add of {key!r} to an empty sketch did not touch exactly one counter per row", "cellmap")
        got = tuple(int(c) for c in tab.argmax(axis=1))
        self.cache[ck] = got
        return got


CELLMAP = CellMap()


_INTERFERE_N = [0]


def _rotate_threads(n):
    """results must not depend on how many numba threads are enabled (numba.set_num_threads is ordinary API)"""
    try:
        import numba

        mx = int(numba.config.NUMBA_NUM_THREADS)
        numba.set_num_threads([mx, 1, max(1, mx // 2), max(1, mx - 1)][n % 4])
    except Exception:
        pass


def reset_interference():
    """call at the start of a case so that the interference sequence is a function of the case alone"""
    _INTERFERE_N[0] = 0


def interfere(cfg):
    """construct and use sketches of OTHER configurations of the same family (see World.interfere)"""
    _INTERFERE_N[0] += 1
    _rotate_threads(_INTERFERE_N[0])
    try:
        cfgs = decoy_configs(cfg)
        c = cfgs[_INTERFERE_N[0] % len(cfgs)]
        a, b = make_sketch(c), make_sketch(c)
        if c["kind"] in ("log16", "log8"):
            plant(a, [0.0])
            plant(b, [0.5])
        a.add(b"decoy", 3)
        b.add(b"decoy2", 70)
        a.merge(b)
        if c["kind"] == "hll":
            a.query()
        elif c["kind"] == "hh":
            a.query(3)
        else:
            a.query(b"decoy")
    except Exception:
        pass


class World:
    def __init__(self, cfg, n_sketches=2, tmp_root=None, shm=False):
        self.cfg = dict(cfg)
        self.kind = cfg["kind"]
        self.n = n_sketches
        self.shm = bool(shm)  # sketches created with shared_memory=True behave like ordinary ones (same properties)
        self.sk = [sut(make_sketch, cfg, self.shm) for _ in range(n_sketches)]
        self.true = [Counter() for _ in range(n_sketches)]  # true multiplicity per (model) key
        self.total = [0 for _ in range(n_sketches)]  # total multiplicity that reached the sketch
        self.seen = [set() for _ in range(n_sketches)]  # distinct model keys ever passed in (any multiplicity)
        self.tmp = tempfile.mkdtemp(prefix="vf_", dir=tmp_root)
        self.nfile = 0
        self.flags = set()
        self.decoys = None
        self.nstep = 0
        if self.kind in ("log16", "log8"):
            numba_seed(20221103)  # refills (adds of more than 2048 units) are then a function of the history alone

    # ---- model side
    def mkey(self, k):
        return k[: self.cfg["max_key_len"]] if self.kind == "hh" else k

    def _model_add(self, i, k, v):
        self.true[i][self.mkey(k)] += v
        self.total[i] += v
        self.seen[i].add(self.mkey(k))

    def close(self):
        self.sk = []
        shutil.rmtree(self.tmp, ignore_errors=True)

    # ---- interference: unrelated sketches of OTHER configurations are constructed and used between the
    # steps of the history (state that is wrongly shared per class / per module shows up this way)
    def interfere(self):
        self.nstep += 1
        _rotate_threads(self.nstep)
        try:
            cfgs = decoy_configs(self.cfg)
            c = cfgs[self.nstep % len(cfgs)]
            a, b = make_sketch(c), make_sketch(c)
            if self.kind in ("log16", "log8"):
                plant(a, [0.0])
                plant(b, [0.5])
            a.add(b"decoy", 3)
            b.add(b"decoy2", 70)
            a.merge(b)
            if self.kind == "hll":
                a.query()
            elif self.kind == "hh":
                a.query(3)
                a[b"decoy"[: c["max_key_len"]]]
            else:
                a.query(b"decoy")
            if self.nstep % 4 == 0:
                self.decoys = (a, b)  # keep a pair alive across steps
        except Exception:  # the decoy's own behaviour is not under test here
            pass

    # ---- interpreter
    def apply(self, step):
        self.interfere()
        # a process-wide numpy error state is ordinary user configuration: every third step runs under
        # np.errstate(all="raise") (the unchanged library is quiet under it)
        with np.errstate(all="raise" if self.nstep % 3 == 0 else "warn"):
            return self._apply(step)

    def _apply(self, step):
        op = step["op"]
        i = step.get("i", 0)
        sk = self.sk[i]
        if self.kind in ("log16", "log8") and "draws" in step:
            plant(sk, step["draws"])
        if op == "add":
            sut(sk.add, step["k"], as_type(step["v"], step.get("vt")))
            self._model_add(i, step["k"], step["v"])
            return {i}
        if op == "add_default":  # add(key) with the default multiplicity
            sut(sk.add, step["k"])
            self._model_add(i, step["k"], 1)
            return {i}
        if op == "update_list":
            # any iterable is accepted (the loop is 'for key in keys'): list, tuple, or a one-shot iterator
            how = step.get("as", "list")
            if how == "reentrant" and step["keys"]:
                # the iterable itself uses the sketch while update() is consuming it (legal, if unusual, Python):
                # after handing out its first key it adds that key once more through add()
                extra = step.get("extra", step["keys"][0])

                def gen(keys=list(step["keys"]), sk=sk, extra=extra):
                    for t_, k_ in enumerate(keys):
                        yield k_
                        if t_ == 0:
                            sk.add(extra, 1)

                arg = gen()
                self._model_add(i, extra, 1)
            else:
                arg = list(step["keys"]) if how in ("list", "reentrant") else tuple(step["keys"]) if how == "tuple" else iter(list(step["keys"]))
            sut(sk.update, arg)
            for k in step["keys"]:
                self._model_add(i, k, 1)
            return {i}
        if op == "update_dict":
            d = {}
            for k, v in step["items"]:
                d[k] = as_type(v, step.get("vt"))  # later duplicates overwrite, exactly as the dict the user would pass
            if step.get("as") == "counter":
                from collections import Counter as _C

                c_ = _C()
                c_.update(d)
                d = c_ if all(isinstance(v, int) and v > 0 for v in d.values()) else d
            sut(sk.update, d)
            for k, v in d.items():
                self._model_add(i, k, int(v))
            return {i}
        if op == "add_ngram":
            sut(sk.add_ngram, step["k"], step["n"])
            for w in windows(step["k"], step["n"]):
                self._model_add(i, w, 1)
            return {i}
        if op == "update_ngram":
            sut(sk.update_ngram, iter(list(step["keys"])) if step.get("as") == "iter" else list(step["keys"]), step["n"])
            for k in step["keys"]:
                for w in windows(k, step["n"]):
                    self._model_add(i, w, 1)
            return {i}
        if op == "merge":
            j = step["j"]
            before = snapshot(self.sk[j], self.kind) if j != i else None
            sut(sk.merge, self.sk[j])
            self.seen[i] |= self.seen[j]
            touched = {i}
            if j != i:
                if not snap_equal(before, snapshot(self.sk[j], self.kind)):
                    # whether the argument may change is C09's statement; here the argument is simply
                    # re-checked against its own (unchanged) model like any touched sketch
                    self.flags.add("merge_changed_argument")
                    touched.add(j)
                self.true[i] = self.true[i] + self.true[j]
                self.total[i] += self.total[j]
            else:
                self.true[i] = self.true[i] + self.true[i]
                self.total[i] *= 2
            self.flags.add("merge")
            return touched
        if op == "copy":
            # copy.deepcopy / a pickle round trip (what a multiprocessing.Pool returns): the sketch object is replaced by its
            # copy and the history goes on with the copy.  In-memory sketches only (observed to work on the unchanged tree).
            if getattr(self, "shm", False) or getattr(sk, "shm", None) is not None or getattr(sk, "existing_shm", None) is not None:
                return set()
            import copy as _copy
            import pickle as _pickle

            new = sut(_copy.deepcopy, sk) if step.get("how") == "deepcopy" else sut(lambda x: _pickle.loads(_pickle.dumps(x)), sk)
            if type(new) is not type(sk):
                raise Violation(f"a copy of a {type(sk).__name__} is a {type(new).__name__}", "copy-class")
            self.sk[i] = new
            self.flags.add("continued_on_a_deepcopy_or_unpickled_copy")
            return {i}
        if op == "save_load":
            self.nfile += 1
            slot = step.get("slot")
            # a slot is a checkpoint path that is written again and again (whatever an earlier save left there is overwritten)
            path = os.path.join(self.tmp, f"s{self.nfile}.npz" if slot is None else f"slot{slot}.npz")
            sut(sk.save, path)
            via = step.get("via", "class")
            shm = bool(step.get("shm", False))
            if via == "module" and self.kind in CMS_KINDS:
                new = sut(cmmod.load, path, shm)
            else:
                new = sut(CLASS_OF[self.kind].load, path, shm)
            if slot is None:
                os.unlink(path)
            else:
                self.flags.add("save_over_existing_file")
            if type(new) is not CLASS_OF[self.kind]:
                raise Violation(f"load returned {type(new).__name__}, saved {CLASS_OF[self.kind].__name__}", "load-class")
            self.sk[i] = new
            self.flags.add("save_load")
            return {i}
        raise ValueError(f"unknown op {op}")

    def keys_seen(self, i):
        return sorted(self.true[i].keys())
