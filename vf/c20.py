"""C20 - a truncated sketch file is never loaded as a sketch."""
import os
import shutil
import tempfile
import zipfile

import numpy as np

from vf import common
from vf.c10 import compare
from vf.common import CEIL, Violation
from vf.world import CLASS_OF, make_sketch, sut

import sketchnu.countmin as cmmod

RULE = (
    "Fault enumeration over crash points of save(): for each of the five classes and 2 (quick) / 6 (thorough) seed-derived shapes with random "
    "histories (files of 0.6-20 kB), EVERY strict prefix length 0..len-1 of the saved file (saved to a fresh path, or over an existing larger sketch file, or over arbitrary longer content) is written to disk under rotating names (part.npz, full.part, full.npz.tmp, full) next to the complete full.npz, or - every fifth length - written in place over a copy of the file that was loaded completely before (that sketch is still alive) and loaded (the argument given as path string, pathlib.Path, open binary file or non-seekable stream, in rotation; blocks of 16 consecutive lengths alternately on the main thread and on a second thread; the saved sketch lives in memory or, for half of the files, in shared memory) through the class "
    "loader (with shared_memory False, and True for one shape per class) and, for count-min, through countmin.load; the complete file must load "
    "and equal the saved sketch (parameters, tables, bookkeeping, queries). The same enumeration is repeated for one shape per class in an interpreter started with -O (assert statements stripped), and files of 1 MB and more (one per class: 1 MiB linear table, 2^19+3 log16 counters, 1.2 MB log8, 20000x3x16 heavy hitters, p=16) are cut at the last 4096 lengths, the first 300, around every zip member boundary and at 1500 drawn lengths. Oracle: every strict prefix raises an exception (any type); returning any "
    "object is a violation. Non-trivial: a prefix that ends inside a member's data, a later local header or the central directory / end record "
    "(i.e. beyond the first local header). Distinct = distinct (class, shape, loader, prefix length)."
)
ASSUMPTIONS = [
    "a crash during np.savez leaves a prefix of the final file (np.savez writes the zip sequentially, central directory last)",
    "files are produced by random histories; adversarially crafted table contents embedding a foreign zip archive are out of scope (DESIGN 9)",
]

KEYS = [b"", b"\0", b"a", b"ab\0", b"\xff\x80\x7f", b"0123456789abcdefXYZ"]


def shapes(kind, rng, n):
    out = []
    for t in range(n):
        if kind in ("linear", "log8", "log16"):
            itemsize = {"linear": 4, "log16": 2, "log8": 1}[kind]
            target = [200, 4000, 1500, 12000, 600, 18000][t % 6]
            d = int(rng.integers(1, 6))
            w = max(1, target // (d * itemsize))
            cfg = {"kind": kind, "width": w, "depth": d}
            if kind != "linear":
                cfg["max_count"] = [CEIL, 10**6, 2**40][t % 3] if kind == "log16" else [CEIL, 1000, 2**40][t % 3]
                cfg["num_reserved"] = [1023, 3, 0][t % 3] if kind == "log16" else [15, 3, 0][t % 3]
        elif kind == "hh":
            mkl = [16, 3, 8, 1, 5, 16][t % 6]
            d = int(rng.integers(1, 5))
            target = [300, 5000, 1500, 12000, 800, 18000][t % 6]
            w = max(1, target // (d * (mkl + 5)))
            cfg = {"kind": "hh", "width": w, "depth": d, "max_key_len": mkl, "phi": [None, 0.01, None][t % 3]}
        else:
            cfg = {"kind": "hll", "p": [7, 10, 8, 13, 9, 14][t % 6], "seed": [0, 2**63 + 5, 12345][t % 3]}
        out.append(cfg)
    return out


def build(cfg, rng, shared=False):
    sk = make_sketch(cfg, shared)  # shared: the saved sketch itself lives in shared memory (as every parallel_add result does)
    n = int(rng.integers(5, 60))
    for _ in range(n):
        k = KEYS[int(rng.integers(0, len(KEYS)))] + bytes(rng.integers(0, 256, int(rng.integers(0, 4)), dtype=np.uint8))
        sk.add(k, int(rng.integers(1, 9)))
    if cfg["kind"] != "hll":
        sk.n_added_records[1] = np.uint64(int(rng.integers(0, 1000)))
    return sk


class _Pipe:
    """a non-seekable binary stream (what a pipe or socket looks like)"""

    def __init__(self, data):
        import io

        self._b = io.BytesIO(data)

    def read(self, n=-1):
        return self._b.read(n)

    def readinto(self, b):
        return self._b.readinto(b)

    def readable(self):
        return True

    def seekable(self):
        return False

    def seek(self, *a):
        import io

        raise io.UnsupportedOperation("seek")

    def tell(self):
        import io

        raise io.UnsupportedOperation("tell")

    def close(self):
        self._b.close()

    closed = False

    def __enter__(self):
        return self

    def __exit__(self, *a):
        self.close()


def regions(data):
    """(first_header_end, central_directory_start) of the complete zip file"""
    import io

    try:
        zf = zipfile.ZipFile(io.BytesIO(data))
    except zipfile.BadZipFile:
        # the property does not prescribe the container: for a file that is not a zip archive the regions are unknown
        # and every prefix beyond the first 64 bytes counts as non-trivial
        return min(64, len(data)), len(data)
    infos = sorted(zf.infolist(), key=lambda i: i.header_offset)
    first = infos[0]
    first_end = first.header_offset + 30 + len(first.filename.encode()) + len(first.extra)
    return first_end, zf.start_dir


def _task(arg):
    kind, cfg, via, shm, seed = arg
    rec = common.Recorder()
    rng = np.random.default_rng(seed)
    tmp = tempfile.mkdtemp(prefix="vf_c20_")
    try:
        saved_shared = (int(seed) // 3) % 2 == 1 or bool(shm)
        sk = build(cfg, rng, saved_shared)
        full = os.path.join(tmp, "full.npz")
        pre = int(seed) % 3
        if pre == 1:  # the path already holds a LARGER sketch file of the same class (re-saving over an old file)
            big = dict(cfg)
            if "width" in big:
                big["width"] = big["width"] * 2 + 7
            else:
                big["p"] = min(16, big["p"] + 2)
            sut(build(big, rng).save, full)
        elif pre == 2:  # ... or arbitrary longer content
            with open(full, "wb") as f:
                f.write(bytes(rng.integers(0, 256, 60000, dtype=np.uint8)))
        sut(sk.save, full)
        data = open(full, "rb").read()
        loader = cmmod.load if via == "module" else CLASS_OF[kind].load
        case0 = {"cfg": cfg, "via": via, "shm": shm, "seed": int(seed), "file_len": len(data)}
        # the complete file loads to the saved sketch
        try:
            cp = sut(loader, full, shm)
            compare(sk, cp, kind, KEYS[:5], "complete file")
            # a second copy of the file is loaded completely as well and that sketch stays alive: later the same file
            # (same inode) is rewritten in place and cut short, as an interrupted re-save would leave it
            again = os.path.join(tmp, "again.npz")
            shutil.copyfile(full, again)
            cp2 = sut(loader, again, shm)
        except Violation as v:
            rec.violation(dict(case0, prefix=len(data)), "complete file: " + v.msg, "complete-file")
            return rec
        first_end, cd_start = regions(data)
        # the truncated file gets various names, next to the complete full.npz (a partial download / temp file)
        names = [os.path.join(tmp, x) for x in ("part.npz", "full.part", "full.npz.tmp", "full")]
        cls = {"in_first_header": 0, "in_member_data_or_headers": 0, "in_central_directory": 0}
        import concurrent.futures as cf

        side = cf.ThreadPoolExecutor(1)  # sequential use of the loaders from a thread other than the main one
        for n in range(len(data)):
            inplace = n % 5 == 4
            if inplace:
                part = again
                with open(part, "r+b") as f:
                    f.seek(0)
                    f.write(data[:n])
                    f.truncate(n)
            else:
                part = names[n % len(names)]
                with open(part, "wb") as f:
                    f.write(data[:n])
            # the argument as a path string, a pathlib.Path, an open (seekable) file, or a non-seekable stream
            form = (n // len(names)) % 4
            fh = None
            try:
                if form == 0:
                    arg = part
                elif form == 1:
                    import pathlib

                    arg = pathlib.Path(part)
                elif form == 2:
                    arg = fh = open(part, "rb")
                else:
                    arg = fh = _Pipe(data[:n])
                obj = side.submit(loader, arg, shm).result() if (n // 16) % 2 else loader(arg, shm)
            except Exception:
                obj = None
            finally:
                if fh is not None:
                    fh.close()
            region = "in_first_header" if n <= first_end else ("in_central_directory" if n >= cd_start else "in_member_data_or_headers")
            cls[region] += 1
            if not inplace:
                os.unlink(part)
            if obj is not None:
                rec.violation(dict(case0, prefix=n), f"{kind} {cfg}: a {n}-byte prefix of the {len(data)}-byte file loaded through {via} loader (shared_memory={shm}) and returned {type(obj).__name__} ({region})", "prefix-loaded")
                del obj
                break
        side.shutdown()
        del cp, cp2
        nt = cls["in_member_data_or_headers"] + cls["in_central_directory"]
        rec.bulk(sum(cls.values()), nt, dict(case0, example_prefix=cd_start + 3), {f"prefix_{k}": v for k, v in cls.items()})
        rec.count("files_saved_from_a_shared_memory_sketch" if saved_shared else "files_saved_from_an_in_memory_sketch")
        rec.count(f"files_{kind}")
        del sk
    finally:
        shutil.rmtree(tmp, ignore_errors=True)
    return rec


BIG = {
    "linear": {"kind": "linear", "width": 65536, "depth": 4},  # a table of exactly 1 MiB
    "log16": {"kind": "log16", "width": 2**19 + 3, "depth": 1, "max_count": CEIL, "num_reserved": 1023},
    "log8": {"kind": "log8", "width": 300000, "depth": 4, "max_count": 10**6, "num_reserved": 3},
    "hh": {"kind": "hh", "width": 20000, "depth": 3, "max_key_len": 16, "phi": None},
    "hll": {"kind": "hll", "p": 16, "seed": 2**63 + 5},
}


def _big_task(arg):
    """Files of a megabyte and more: the last 4096 prefix lengths, the first 300, the neighbourhood of every zip
    member boundary and 1500 seed-drawn lengths (the file is saved once and truncated step by step)."""
    kind, via, shm, seed = arg
    cfg = BIG[kind]
    rec = common.Recorder()
    rng = np.random.default_rng(seed)
    tmp = tempfile.mkdtemp(prefix="vf_c20b_")
    try:
        sk = build(cfg, rng)
        full = os.path.join(tmp, "full.npz")
        sut(sk.save, full)
        data_len = os.path.getsize(full)
        loader = cmmod.load if via == "module" else CLASS_OF[kind].load
        case0 = {"big": True, "kind": kind, "via": via, "shm": shm, "seed": int(seed), "file_len": data_len}
        try:
            cp = sut(loader, full, shm)
            compare(sk, cp, kind, KEYS[:5], "complete file")
            del cp
        except Violation as v:
            rec.violation(dict(case0, prefix=data_len), "complete file: " + v.msg, "complete-file")
            return rec
        with open(full, "rb") as f:
            first_end, cd_start = regions(f.read())
        try:
            with zipfile.ZipFile(full) as zf:
                bounds = [i.header_offset for i in zf.infolist()] + [cd_start]
        except zipfile.BadZipFile:
            bounds = []
        offs = set(range(max(0, data_len - 4096), data_len)) | set(range(0, 300))
        for b in bounds:
            offs |= set(range(max(0, b - 40), min(data_len, b + 120)))
        offs |= set(int(x) for x in rng.integers(0, data_len, 1500))
        part = os.path.join(tmp, "part.npz")
        os.rename(full, part)
        count = nt = 0
        for n in sorted(offs, reverse=True):
            os.truncate(part, n)
            try:
                obj = loader(part, shm)
            except Exception:
                obj = None
            count += 1
            nt += n > first_end
            if obj is not None:
                region = "in_first_header" if n <= first_end else ("in_central_directory_or_after" if n >= cd_start else "in_member_data_or_headers")
                rec.violation(dict(case0, prefix=n), f"{kind} {cfg}: a {n}-byte prefix of the {data_len}-byte file loaded through {via} loader (shared_memory={shm}) and returned {type(obj).__name__} ({region})", "prefix-loaded")
                del obj
                break
        rec.bulk(count, nt, dict(case0, example_prefix=data_len - 7), {"prefixes_of_files_of_1MB_or_more": count})
        del sk
    finally:
        shutil.rmtree(tmp, ignore_errors=True)
    return rec


def jobs_for(tier, seed):
    n = 2 if tier == "quick" else 6
    rng = np.random.default_rng(common.derive_seed(seed, "C20-shapes"))
    jobs = []
    for kind in ("linear", "log16", "log8", "hh", "hll"):
        for t, cfg in enumerate(shapes(kind, rng, n)):
            s = common.derive_seed(seed, "C20", kind, t)
            jobs.append((kind, cfg, "class", False, s))
            if kind in ("linear", "log16", "log8"):
                jobs.append((kind, cfg, "module", False, s))
            if t == 0:
                jobs.append((kind, cfg, "class", True, s))
            if t <= 1 and (s // 3) % 2 == 0:  # a file saved from a sketch that lives in shared memory, read back by the ordinary loader
                jobs.append((kind, cfg, "class", False, s + 3))
    return jobs


def _opt_jobs(tier, seed):
    """the jobs repeated in an interpreter started with -O (assert statements are stripped): one shape per class"""
    out, seen = [], {}
    for j in jobs_for(tier, seed):
        if j[2] == "class" and not j[3] and seen.get(j[0], 0) < (1 if tier == "quick" else 3):
            seen[j[0]] = seen.get(j[0], 0) + 1
            out.append(j)
    return out


def run(tier, seed, rec):
    import pickle
    import subprocess
    import sys

    jobs = jobs_for(tier, seed)
    jobs.sort(key=lambda j: -(j[1].get("width", 1) * j[1].get("depth", 1) * j[1].get("max_key_len", 1) + (1 << j[1].get("p", 0))))
    # the same enumeration in an interpreter started with -O
    out = tempfile.NamedTemporaryFile(prefix="vf_c20_opt_", suffix=".pkl", delete=False).name
    env = dict(os.environ, VERIF_C20_CHILD=out, PYTHONPATH=common.VERIF_DIR)
    child = subprocess.Popen([sys.executable, "-O", "-W", "ignore", "-c", "import sys; from vf import common; common.import_sut(); common.patch_sleep(); from vf import c20; c20._child_main(sys.argv[1], int(sys.argv[2]))", tier, str(seed)], cwd=common.VERIF_DIR, env=env, stdout=subprocess.PIPE, stderr=subprocess.PIPE, text=True)
    common.pool_merge(_task, jobs, rec)
    if not rec.violations:
        rec.exhaustive.append("every strict prefix length of every generated file, per loader")
    kinds = ["linear", "log16", "log8", "hh", "hll"]
    if tier == "quick":
        k2 = kinds[1 + common.derive_seed(seed, "C20-big") % 3]
        bj = [("linear", "class", False), ("linear", "module", False), (k2, "class", False), ("hh" if k2 != "hh" else "log8", "class", True)]
    else:
        bj = [(k, v, sh) for k in kinds for v, sh in (("class", False), ("class", True), ("module", False)) if v == "class" or k in ("linear", "log16", "log8")]
    common.pool_merge(_big_task, [(k, v, sh, common.derive_seed(seed, "C20-big", k, v)) for k, v, sh in bj], rec)
    try:
        so, se = child.communicate(timeout=1500)
    except subprocess.TimeoutExpired:
        child.kill()
        raise common.HarnessError("the -O interpreter did not finish within 1500 s: inconclusive")
    try:
        with open(out, "rb") as f:
            sub = pickle.load(f)
    except Exception as e:  # noqa
        raise common.HarnessError(f"the -O interpreter produced no result (rc={child.returncode}): {se[-1500:]}")
    finally:
        try:
            os.unlink(out)
        except OSError:
            pass
    rec.merge(sub)


def _child_main(tier, seed):
    import pickle
    import sys

    if sys.flags.optimize < 1:
        raise SystemExit("expected to run under python -O")
    rec = common.Recorder()
    for j in _opt_jobs(tier, seed):
        r = _task(j)
        for v in r.violations:
            v["case"]["python_O"] = True
            v["msg"] = "[python -O] " + v["msg"]
        rec.merge(r)
        rec.count("prefixes_tried_under_python_O", r.evaluations)
    with open(os.environ["VERIF_C20_CHILD"], "wb") as f:
        pickle.dump(rec, f)


def replay(case):
    if case.get("big"):
        r = _big_task((case["kind"], case["via"], case["shm"], case["seed"]))
        if r.violations:
            raise Violation(r.violations[0]["msg"], r.violations[0]["signature"])
        return
    if case.get("python_O"):
        import subprocess
        import sys

        c = {k: v for k, v in case.items() if k != "python_O"}
        code = "import json,sys; from vf import common; common.import_sut(); from vf import c20; c20.replay(common.unjson(json.loads(sys.argv[1])))"
        import json

        r = subprocess.run([sys.executable, "-O", "-W", "ignore", "-c", code, json.dumps(common.jsonable(c))], cwd=common.VERIF_DIR, env=dict(os.environ, PYTHONPATH=common.VERIF_DIR), capture_output=True, text=True)
        if r.returncode != 0:
            raise Violation("[python -O] " + (r.stderr.strip().splitlines() or ["replay failed"])[-1], "prefix-loaded")
        return
    kind = case["cfg"]["kind"]
    r = _task((kind, case["cfg"], case["via"], case["shm"], case["seed"]))
    if r.violations:
        raise Violation(r.violations[0]["msg"], r.violations[0]["signature"])

