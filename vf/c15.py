"""C15 - merging incompatible sketches is refused and changes nothing."""
import itertools
import os
import tempfile

import numpy as np
from hypothesis import given, strategies as st

from vf import common
from vf.common import CEIL, Violation
from vf.world import CLASS_OF, _rotate_threads, make_sketch, snapshot, snap_diff, snap_equal, sut

import sketchnu.countmin as cmmod
from sketchnu.countmin import CountMin

RULE = (
    "Enumerated: per family several seed-derived base configurations and every configuration differing from the base in exactly one "
    "listed parameter (count-min: width, depth, counter type - all 6 ordered type pairs at equal width/depth -, max_count, num_reserved; "
    "HyperLogLog: p, seed incl. seeds that differ only above bit 32 or only in bit 63; heavy hitters: width, depth, max_key_len; plus families of large magnitudes: max_count 2^40..2^63 differing by 1, widths/depths differing by 256, 65536 or 2^20), every "
    "ordered pair, both operands non-empty; plus Hypothesis-drawn pairs of configurations of one family (differences in several parameters, "
    "or none). Oracle: if the pair differs in a listed parameter merge raises TypeError and the full public state of both operands is "
    "bit-for-bit unchanged; otherwise (incl. heavy hitters differing only in phi, count-min built through CountMin() vs the class, loaded vs "
    "fresh, instances of trivial user subclasses of the sketch classes) merge raises nothing. All evaluations are non-trivial (both operands non-empty). Distinct = distinct ordered configuration pair."
)
ASSUMPTIONS = ["'differ' is judged on the constructor arguments listed in the property; phi is not a merge parameter"]

KEYS = [b"", b"\0", b"a", b"a\0", b"\xff\x80", b"abcdefghijklmnopq"]


def fill(sk, kind, salt):
    for t, k in enumerate(KEYS):
        sk.add(k, 1 + (t + salt) % 3)
    if kind != "hll":
        sk.n_added_records[1] = np.uint64(3 + salt)


def differs(a, b):
    if a["kind"] != b["kind"]:
        return True
    listed = {"linear": ["width", "depth"], "log8": ["width", "depth", "max_count", "num_reserved"], "log16": ["width", "depth", "max_count", "num_reserved"],
              "hh": ["width", "depth", "max_key_len"], "hll": ["p", "seed"]}[a["kind"]]
    return any(a[x] != b[x] for x in listed)


def check_pair(ca, cb, variant=0):
    """variant 1: build count-min operands through CountMin(); variant 2: second operand is a loaded copy; variant 3: operands are instances of trivial user subclasses"""
    A = build(ca, variant if variant != 3 or len(repr(cb)) % 2 else 0)  # variant 3: the argument, or both, are subclass instances
    B = build(cb, variant)
    fill(A, ca["kind"], 0)
    fill(B, cb["kind"], 1)
    if variant == 2:
        d = tempfile.mkdtemp(prefix="vf_c15_")
        try:
            p = os.path.join(d, "b.npz")
            B.save(p)
            B = CLASS_OF[cb["kind"]].load(p)
        finally:
            import shutil

            shutil.rmtree(d, ignore_errors=True)
    sa, sb = snapshot(A, ca["kind"]), snapshot(B, cb["kind"])
    want_refusal = differs(ca, cb)
    # the enabled numba thread count and numpy's error state are user configuration: neither may change the verdict
    _rotate_threads(len(repr(ca)) + 3 * len(repr(cb)) + variant)
    try:
        with np.errstate(all="raise" if (len(repr(ca)) + variant) % 2 else "warn"):
            A.merge(B)
        raised = None
    except Exception as e:  # noqa
        raised = e
    if want_refusal:
        if raised is None:
            raise Violation(f"merge of {ca} <- {cb} was accepted although they differ in a listed parameter", "incompatible-accepted")
        if not isinstance(raised, TypeError):
            raise Violation(f"merge of {ca} <- {cb} raised {type(raised).__name__}: {raised} instead of TypeError", "wrong-exception")
        na, nb = snapshot(A, ca["kind"]), snapshot(B, cb["kind"])
        if not snap_equal(sa, na):
            raise Violation(f"refused merge of {ca} <- {cb} changed the receiving sketch in {snap_diff(sa, na)}", "refused-merge-mutated")
        if not snap_equal(sb, nb):
            raise Violation(f"refused merge of {ca} <- {cb} changed the argument sketch in {snap_diff(sb, nb)}", "refused-merge-mutated")
    else:
        if raised is not None:
            raise Violation(f"merge of compatible sketches {ca} <- {cb} raised {type(raised).__name__}: {raised}", "compatible-refused")
    return want_refusal


def build(cfg, variant):
    if variant == 1 and cfg["kind"] in ("linear", "log8", "log16"):
        if cfg["kind"] == "linear":
            return CountMin("linear", cfg["width"], cfg["depth"])
        return CountMin(cfg["kind"], cfg["width"], cfg["depth"], cfg["max_count"], cfg["num_reserved"])
    sk = make_sketch(cfg)
    if variant == 3:
        # an instance of a trivial user subclass (class DailySketch(CountMinLinear): pass) with the same parameters
        cls = type(sk)
        sk.__class__ = _SUBCLASSES.setdefault(cls, type("User" + cls.__name__, (cls,), {}))
    return sk


_SUBCLASSES = {}


def grid(seed):
    import random

    r = random.Random(seed)
    out = []
    for rep in range(3):
        w, d = r.choice([1, 2, 7, 64]), r.choice([1, 3, 8])
        lin = {"kind": "linear", "width": w, "depth": d}
        l16 = {"kind": "log16", "width": w, "depth": d, "max_count": r.choice([CEIL, 10**6]), "num_reserved": r.choice([1023, 3])}
        l8 = {"kind": "log8", "width": w, "depth": d, "max_count": r.choice([CEIL, 1000]), "num_reserved": r.choice([15, 0])}
        fam = [lin, dict(lin, width=w + 1), dict(lin, depth=d + 1), l16, dict(l16, width=w + 1), dict(l16, depth=d + 1), dict(l16, max_count=l16["max_count"] + 1),
               dict(l16, max_count=2**40), dict(l16, num_reserved=l16["num_reserved"] + 1), l8, dict(l8, width=w + 1), dict(l8, depth=d + 1),
               dict(l8, max_count=l8["max_count"] + 1), dict(l8, num_reserved=l8["num_reserved"] + 1)]
        out.append(fam)
        # large magnitudes: parameters that only differ far up (close huge max_counts round to the same float;
        # widths/depths beyond 8 or 16 bits collide in packed or truncated comparisons)
        big = [2**40, 2**60, 2**63][rep]
        b16 = {"kind": "log16", "width": w, "depth": d, "max_count": big, "num_reserved": 1023}
        b8 = {"kind": "log8", "width": w, "depth": d, "max_count": max(big, 2**60), "num_reserved": 15}
        out.append([b16, dict(b16, max_count=big + 1), dict(b16, max_count=big + 1000), dict(b16, max_count=big - 1), b8, dict(b8, max_count=b8["max_count"] + 1),
                    dict(b8, max_count=b8["max_count"] - 1), dict(b8, max_count=b8["max_count"] + 2**20)])
        if rep == 0:
            lw = {"kind": "linear", "width": 3, "depth": 2}
            out.append([lw, dict(lw, width=3 + 256), dict(lw, width=3 + 65536), dict(lw, depth=2 + 256), dict(lw, depth=2 + 65536)])
        p, s = r.choice([7, 10, 16]), r.choice([0, 5, 2**32 - 1, r.getrandbits(64)])
        h = {"kind": "hll", "p": p, "seed": s}
        out.append([h, dict(h, p=p + 1 if p < 16 else p - 1), dict(h, seed=s ^ 1), dict(h, seed=s ^ (1 << 32)), dict(h, seed=s ^ (1 << 63)), dict(h, seed=s ^ (1 << 40))])
        hw, hd, hm = r.choice([1, 3, 16]), r.choice([1, 4]), r.choice([2, 8, 16])
        hh = {"kind": "hh", "width": hw, "depth": hd, "max_key_len": hm, "phi": None}
        out.append([hh, dict(hh, width=hw + 1), dict(hh, depth=hd + 1), dict(hh, max_key_len=hm + 1), dict(hh, max_key_len=hm - 1), dict(hh, phi=0.25)])
        if rep:
            continue
        hb = {"kind": "hh", "width": 3, "depth": 4, "max_key_len": 8, "phi": None}
        out.append([hb, dict(hb, depth=4 + 256), dict(hb, depth=4 + 512), dict(hb, width=3 + 256), dict(hb, width=3 + 65536), dict(hb, width=2, depth=260), dict(hb, max_key_len=255)])
    return out


def _grid_task(arg):
    fam, variant = arg
    rec = common.Recorder()
    for ca, cb in itertools.product(fam, repeat=2):
        case = {"a": ca, "b": cb, "variant": variant}
        try:
            refused = check_pair(ca, cb, variant)
        except Violation as v:
            rec.violation(case, v.msg, v.signature)
            continue
        rec.case(case, True, ["refused" if refused else "merged", f"family={ca['kind'] if ca['kind'] in ('hll', 'hh') else 'cms'}"])
    return rec


def _shard(arg):
    seed, shard, n = arg
    rec = common.Recorder()
    holder = {}
    cms = st.one_of(
        st.builds(lambda w, d: {"kind": "linear", "width": w, "depth": d}, st.sampled_from([1, 2, 3]), st.sampled_from([1, 2])),
        st.builds(lambda k, w, d, mc, nr: {"kind": k, "width": w, "depth": d, "max_count": mc, "num_reserved": nr}, st.sampled_from(["log8", "log16"]),
                  st.sampled_from([1, 2, 3]), st.sampled_from([1, 2]), st.sampled_from([CEIL, 10**6, 2**40, 2**40 + 1, 2**60, 2**60 + 1, 2**63, 2**63 + 1]), st.sampled_from([0, 3, 15])),
    )
    hll = st.builds(lambda p, s: {"kind": "hll", "p": p, "seed": s}, st.sampled_from([7, 8, 16]), st.sampled_from([0, 1, 2**32, 2**32 + 1, 2**63, 2**64 - 1]))
    hh = st.builds(lambda w, d, m, phi: {"kind": "hh", "width": w, "depth": d, "max_key_len": m, "phi": phi}, st.sampled_from([1, 2, 3, 259]), st.sampled_from([1, 2, 4, 258, 260]),
                   st.sampled_from([1, 4, 16, 255]), st.sampled_from([None, 0.5, 1.0]))
    pairs = st.one_of(st.tuples(cms, cms), st.tuples(hll, hll), st.tuples(hh, hh))

    @given(pair=pairs, variant=st.sampled_from([0, 0, 1, 2, 3]))
    def test(pair, variant):
        case = {"a": pair[0], "b": pair[1], "variant": variant}
        holder["case"] = case
        refused = check_pair(pair[0], pair[1], variant)
        rec.case(case, True, ["refused" if refused else "merged", f"variant={variant}"])

    common.run_given(test, common.derive_seed(seed, "C15", shard), n, holder, rec)
    return rec


def run(tier, seed, rec):
    fams = grid(common.derive_seed(seed, "C15-grid"))
    jobs = [(f, v) for f in fams for v in (0, 1, 2, 3)]
    common.pool_merge(_grid_task, jobs, rec)
    if not rec.violations:
        rec.exhaustive.append("every ordered pair within each one-parameter-difference family (3 base configurations per sketch family, 4 construction variants)")
    total, shards = (1600, 16) if tier == "quick" else (32000, 32)
    common.pool_merge(_shard, [(seed, i, total // shards) for i in range(shards)], rec)


def replay(case):
    check_pair(case["a"], case["b"], case.get("variant", 0))
