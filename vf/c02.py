"""C02 - HyperLogLog state depends only on the set of distinct keys (union semantics)."""
import itertools

import numpy as np
from hypothesis import strategies as st

from vf import common, machines, models, refhash
from vf import strategies as vs
from vf.common import Violation
from vf.world import sut

from sketchnu.hyperloglog import HyperLogLog

RULE = (
    "Hypothesis rule-based machine over 5 HyperLogLog sketches with common (p, seed), p in 7..16, seed from "
    "{0,1,2^32-1,2^32,2^63,2^64-1,any uint64}; key universe = byte strings (incl. empty, NUL, high bytes) plus 8-byte "
    "FastHash preimages that put chosen ranks (1,2,21,40,64-p,64-p+1) into shared registers; rules add(i,k,v) with any "
    "multiplicity incl. 0 and 2^40, update(list), update(dict), add_ngram, update_ngram, merge(i,j) incl. i==j. After every "
    "step, for each touched sketch: registers == registers of a fresh sketch fed the distinct keys once in sorted order; "
    "== the reference register model (independent hash, bit_length-based rank); query() bit-identical to the fresh sketch's. "
    "Plus exhaustive enumeration: for key sets of size 4-5 (with shared registers) every ordering x every 2-way partition x "
    "both merge directions, and all 5 binary merge-tree shapes x merge directions over 4 leaves. Non-trivial: at least two "
    "distinct keys with different ranks share a register and some rank > 20. Distinct = distinct (configuration, step list)."
)
ASSUMPTIONS = [
    "reference FastHash64 (anchored to published vectors) and its inverse on one 8-byte block for constructing keys with a chosen (register, rank)",
]

CFG = st.builds(lambda p, s, at: {"kind": "hll", "p": p, "seed": s, **({"argtype": at} if at else {})}, st.integers(7, 16), vs.seeds64, st.sampled_from([None, None, None, "u8", "i8", "u16", "i64", "u64", "i32"]))

_HCACHE = {}


def href(k, seed):
    h = _HCACHE.get((k, seed))
    if h is None:
        h = refhash.fasthash64(k, seed)
        if len(_HCACHE) > 200000:
            _HCACHE.clear()
        _HCACHE[(k, seed)] = h
    return h


def ref_registers(keys, p, seed):
    reg = np.zeros(1 << p, np.uint8)
    info = {}
    for k in keys:
        i, r = models.hll_index_rank(href(k, seed), p)
        info.setdefault(i, set()).add(r)
        if r > reg[i]:
            reg[i] = r
    return reg, info


def preimage_keys(p, seed, idxs, salts=(0, 1)):
    nb = 64 - p
    out = []
    for idx in idxs:
        for rank in (1, 2, 21, 40, nb, nb + 1):
            for s in salts:
                out.append(models.hll_key_for(idx, rank, p, seed, s))
        # remainders just below a power of two (all ones under the leading one): where a float-based
        # bit-length computation would round up
        for rank in (1, 2, 3, 4, 5, 12):
            for s in ("ones", "ones0"):
                out.append(models.hll_key_for(idx, rank, p, seed, s))
    return out


class Checker:
    def __init__(self, world, case):
        self.w = world
        self.nt = set()

    def check_sketch(self, i):
        w = self.w
        p, seed = w.cfg["p"], w.cfg["seed"]
        keys = sorted(w.seen[i])
        fresh = HyperLogLog(p, seed)
        for k in keys:
            fresh.add(k)
        got = np.array(w.sk[i].registers, copy=True)
        ref, info = ref_registers(keys, p, seed)
        if got.dtype != np.uint8 or got.shape != ref.shape:
            raise Violation(f"registers have dtype/shape {got.dtype}/{got.shape}", "registers-shape")
        if not np.array_equal(got, ref):
            j = int(np.nonzero(got != ref)[0][0])
            raise Violation(f"sketch {i}: register {j} is {int(got[j])}, reference model says {int(ref[j])} for {len(keys)} distinct keys (p={p}, seed={seed})", "register-model")
        if not np.array_equal(got, fresh.registers):
            j = int(np.nonzero(got != fresh.registers)[0][0])
            raise Violation(f"sketch {i}: register {j} is {int(got[j])}, a fresh sketch fed the distinct keys once has {int(fresh.registers[j])}", "history-dependence")
        q, qf = sut(w.sk[i].query), fresh.query()
        if not (q == qf):
            raise Violation(f"sketch {i}: query()={q!r} differs from fresh sketch's {qf!r}", "query-differs")
        shared = any(len(rs) >= 2 for rs in info.values())
        hi = any(max(rs) > 20 for rs in info.values()) if info else False
        if shared:
            self.nt.add("shared_register_diff_ranks")
        if hi:
            self.nt.add("rank>20")
        if info and max(max(rs) for rs in info.values()) == 64 - p + 1:
            self.nt.add("max_rank")
        if shared and hi:
            self.nt.add("NT")

    def __call__(self, touched, step):
        if step["op"] == "merge":
            self.nt.add("self_merge" if step["i"] == step["j"] else "merge")
        # every sketch, not only the touched one: an operation on one sketch must not leak into another
        for i in range(self.w.n):
            self.check_sketch(i)

    def flags(self):
        return "NT" in self.nt, sorted(self.nt - {"NT"}) + [f"p={self.w.cfg['p']}"] + (["seed>=2^32"] if self.w.cfg["seed"] >= 2**32 else [])


def _draw_universe(self, data, cfg):
    base = data.draw(vs.universe(2, 5, 24), label="universe")
    base = base + [data.draw(vs.biased_bytes(32, 80), label="long_key")]  # >= 4 full blocks: a separate hashing path
    p, seed = cfg["p"], cfg["seed"]
    m = 1 << p
    idxs = data.draw(st.lists(st.sampled_from([0, 1, m // 2, m - 1]), min_size=1, max_size=2, unique=True), label="idxs")
    pre = preimage_keys(p, seed, idxs)
    pre = pre[-12:] + pre[:-12] if data.draw(st.booleans(), label="ones_first") else pre
    # interleave so that small rule indices reach both kinds
    out = []
    for a, b in itertools.zip_longest(pre, base):
        for x in (a, b):
            if x is not None and x not in out:
                out.append(x)
    return out[:32]


def _shard(arg):
    seed, shard, n_examples, steps = arg
    rec = common.Recorder()
    holder = {}
    M = machines.make_machine(
        "C02Machine", Checker, rec, holder, CFG=CFG, N=5, VALUES=st.sampled_from([0, 1, 1, 2, 7, 2**32 - 1, 2**32, 2**40]),
        SELF_MERGE=True, SAVELOAD=False, MAXKEY=24, draw_universe=_draw_universe,
    )
    common.run_machine(M, common.derive_seed(seed, "C02", shard), n_examples, steps, holder, rec, retry=lambda c_: machines.replay_trace(c_, Checker))
    return rec


# ------------------------------------------------------------------ exhaustive part


def _enum_orderings(arg):
    p, seed, nkeys, variant = arg
    rec = common.Recorder()
    m = 1 << p
    nb = 64 - p
    ranks = [[1, 2, 21, nb + 1, nb], [3, 3, 40, 1, nb + 1], [nb + 1, 1, 1, 2, 30]][variant % 3]
    idxs = [[0, 0, 0, m - 1, m - 1], [5, 5, 5, 5, 6], [0, 1, 1, 1, 0]][variant % 3]
    keys = [models.hll_key_for(idxs[t], ranks[t], p, seed, t) for t in range(nkeys)]
    keys[0] = models.hll_key_for(idxs[0], 1 + variant % 3, p, seed, "ones")
    if variant % 2:
        keys[-1] = b""  # the empty key (hash 0 for seed 0: rank 64-p+1 in register 0)
    keys = list(dict.fromkeys(keys))
    n = len(keys)
    expect, info = ref_registers(keys, p, seed)
    nt_set = any(len(r) >= 2 for r in info.values()) and any(max(r) > 20 for r in info.values())
    a, b = HyperLogLog(p, seed), HyperLogLog(p, seed)
    count = 0
    for perm in itertools.permutations(range(n)):
        for mask in range(1 << n):
            for direction in (0, 1):
                a.registers[:] = 0
                b.registers[:] = 0
                for pos, ki in enumerate(perm):
                    (a if (mask >> pos) & 1 else b).add(keys[ki])
                if direction:
                    a.merge(b)
                    res = a
                else:
                    b.merge(a)
                    res = b
                count += 1
                if not np.array_equal(res.registers, expect):
                    case = {"cfg": {"kind": "hll", "p": p, "seed": seed}, "n": 2, "U": keys,
                            "steps": [{"op": "add", "i": 0 if (mask >> pos) & 1 else 1, "k": keys[ki], "v": 1} for pos, ki in enumerate(perm)]
                            + [{"op": "merge", "i": 0 if direction else 1, "j": 1 if direction else 0}]}
                    rec.violation(case, f"ordering/partition enumeration: merged registers differ from the set model (p={p}, seed={seed})", "history-dependence")
                    rec.bulk(count, 0)
                    return rec
    rec.bulk(count, count if nt_set else 0, {"p": p, "seed": seed, "keys": keys, "what": "all orderings x 2-way partitions x merge directions"}, {"enum_order_partition": count})
    return rec


TREES = [  # 5 binary tree shapes over leaves 0..3 as nested tuples
    ((0, 1), (2, 3)), (((0, 1), 2), 3), ((0, (1, 2)), 3), (0, ((1, 2), 3)), (0, (1, (2, 3))),
]


def _enum_trees(arg):
    p, seed, variant = arg
    rec = common.Recorder()
    m = 1 << p
    nb = 64 - p
    keys = [models.hll_key_for([0, 0, m - 1, 0, 3, 3][t], [1, 25, nb + 1, nb, 2, 22][t], p, seed, t + variant) for t in range(6)] + [b"", b"\0"]
    expect, info = ref_registers(keys, p, seed)
    count = 0
    sks = [HyperLogLog(p, seed) for _ in range(4)]
    import random

    r = random.Random(variant * 7919 + p)
    for trial in range(40):
        assign = [r.randrange(4) for _ in keys]
        for tree in TREES:
            for dirs in itertools.product((0, 1), repeat=3):
                for s in sks:
                    s.registers[:] = 0
                order = list(range(len(keys)))
                r.shuffle(order)
                steps = []
                for ki in order:
                    steps.append({"op": "add", "i": assign[ki], "k": keys[ki], "v": 1})
                    if r.random() < 0.3:
                        steps.append({"op": "add", "i": assign[ki], "k": keys[ki], "v": 3})  # duplicate
                dit = iter(dirs)

                def ev(t):
                    if isinstance(t, int):
                        return t
                    x, y = ev(t[0]), ev(t[1])
                    if next(dit):
                        steps.append({"op": "merge", "i": x, "j": y})
                        return x
                    steps.append({"op": "merge", "i": y, "j": x})
                    return y

                root = ev(tree)
                for st_ in steps:
                    if st_["op"] == "add":
                        sks[st_["i"]].add(st_["k"], st_["v"])
                    else:
                        sks[st_["i"]].merge(sks[st_["j"]])
                count += 1
                if not np.array_equal(sks[root].registers, expect):
                    rec.violation({"cfg": {"kind": "hll", "p": p, "seed": seed}, "n": 4, "U": keys, "steps": steps},
                                  f"merge-tree enumeration ({tree!r}, directions {dirs}): merged registers differ from the set model", "history-dependence")
                    rec.bulk(count, 0)
                    return rec
    rec.bulk(count, count, {"p": p, "seed": seed, "keys": keys, "what": "5 tree shapes x 8 direction choices x 40 leaf assignments"}, {"enum_trees": count})
    return rec


def run(tier, seed, rec):
    quick = tier == "quick"
    n_ex, steps, shards = (150, 30, 16) if quick else (1000, 40, 32)
    common.pool_merge(_shard, [(seed, i, n_ex, steps) for i in range(shards)], rec)
    seeds = [0, 2**64 - 1, common.derive_seed(seed, "C02-enum")]
    jobs = []
    for v, (p, s) in enumerate([(7, seeds[0]), (12, seeds[1]), (16, seeds[2]), (9, seeds[2] >> 1)]):
        jobs.append((p, s, 5 if not quick or v < 2 else 4, v))
    common.pool_merge(_enum_orderings, jobs, rec)
    common.pool_merge(_enum_trees, [(p, s, v) for v, (p, s) in enumerate([(7, 0), (10, seeds[2]), (16, 2**63)])], rec)
    if not rec.violations:
        rec.exhaustive.append("per key set (4 sets of 4-5 keys with shared registers): every ordering x every 2-way partition x both merge directions")


def replay(case):
    machines.replay_trace(case, Checker)
