"""Pure-stdlib helpers for C11 (imported by a second interpreter that must not import
sketchnu as a package)."""
import hashlib
import random

SEEDS = [0, 1, 2**32 - 1, 2**32, 2**63, 2**64 - 1]


def gen_inputs(seed, n):
    r = random.Random(seed)
    out = []
    for i in range(n):
        ln = r.choice([r.randrange(0, 17), r.randrange(0, 65), r.randrange(0, 264)])
        mode = r.randrange(4)
        if mode == 0:
            b = bytes(r.randrange(256) for _ in range(ln))
        elif mode == 1:
            b = bytes(r.choice([0, 0x7F, 0x80, 0xFF]) for _ in range(ln))
        elif mode == 2:
            b = bytes([r.choice([0, 0xFF])]) * ln
        else:
            b = bytes((0x80 | r.randrange(128)) for _ in range(ln))
        s = r.choice([r.choice(SEEDS), r.getrandbits(64), r.getrandbits(32)])
        out.append((b, s))
    return out


def digest(fh64, fh32, mm3, inputs, wrap=int):
    h = hashlib.sha256()
    for b, s in inputs:
        h.update(int(fh64(b, wrap(s))).to_bytes(8, "little"))
        h.update(int(fh32(b, wrap(s))).to_bytes(4, "little"))
        h.update(int(mm3(b, s & 0xFFFFFFFF)).to_bytes(4, "little"))
    return h.hexdigest()


SUBPROCESS_SCRIPT = r"""
import sys, importlib.util, warnings
warnings.filterwarnings("ignore")
verif, repo, seed, n = sys.argv[1], sys.argv[2], int(sys.argv[3]), int(sys.argv[4])
sys.path.insert(0, verif)
spec = importlib.util.spec_from_file_location("sut_hashes", repo + "/sketchnu/hashes.py")
m = importlib.util.module_from_spec(spec); spec.loader.exec_module(m)
import numpy as np
from vf.c11_inputs import gen_inputs, digest
print("DIGEST", digest(m.fasthash64, m.fasthash32, m.murmur3, gen_inputs(seed, n), wrap=np.uint64))
"""
