"""Reference hashes, written from the published algorithms (not from sketchnu/hashes.py).

FastHash (Zilong Tan, fast-hash, fasthash.c):
    mix(h): h ^= h >> 23; h *= 0x2127599bf4325c37; h ^= h >> 47
    fasthash64(buf, len, seed): m = 0x880355f21e6d1965; h = seed ^ (len * m);
        for each 8-byte little-endian word v: h ^= mix(v); h *= m
        tail (len & 7 bytes, little-endian into v): h ^= mix(v); h *= m
        return mix(h)
    fasthash32: h = fasthash64(...); return h - (h >> 32)   (truncated to 32 bits)
MurmurHash3_x86_32 (Austin Appleby, MurmurHash3.cpp).
"""

M64 = (1 << 64) - 1
M32 = (1 << 32) - 1
FH_M = 0x880355F21E6D1965
FH_MIXC = 0x2127599BF4325C37


def mix(h):
    h ^= h >> 23
    h = (h * FH_MIXC) & M64
    h ^= h >> 47
    return h


def fasthash64(buf, seed):
    n = len(buf)
    h = (seed ^ (n * FH_M)) & M64
    nb = n // 8
    for i in range(nb):
        v = int.from_bytes(buf[8 * i : 8 * i + 8], "little")
        h ^= mix(v)
        h = (h * FH_M) & M64
    tail = buf[8 * nb :]
    if tail:
        v = int.from_bytes(tail, "little")
        h ^= mix(v)
        h = (h * FH_M) & M64
    return mix(h)


def fasthash32(buf, seed):
    h = fasthash64(buf, seed)
    return (h - (h >> 32)) & M32


def _rotl32(x, r):
    return ((x << r) | (x >> (32 - r))) & M32


def murmur3(buf, seed):
    c1, c2 = 0xCC9E2D51, 0x1B873593
    n = len(buf)
    h = seed & M32
    nb = n // 4
    for i in range(nb):
        k = int.from_bytes(buf[4 * i : 4 * i + 4], "little")
        k = (k * c1) & M32
        k = _rotl32(k, 15)
        k = (k * c2) & M32
        h ^= k
        h = _rotl32(h, 13)
        h = (h * 5 + 0xE6546B64) & M32
    tail = buf[4 * nb :]
    if tail:
        k = int.from_bytes(tail, "little")
        k = (k * c1) & M32
        k = _rotl32(k, 15)
        k = (k * c2) & M32
        h ^= k
    h ^= n
    h ^= h >> 16
    h = (h * 0x85EBCA6B) & M32
    h ^= h >> 13
    h = (h * 0xC2B2AE35) & M32
    h ^= h >> 16
    return h


# ---- inverse of mix (a bijection on 64-bit words) => 8-byte preimages of fasthash64

_INV_MIXC = pow(FH_MIXC, -1, 1 << 64)
_INV_M = pow(FH_M, -1, 1 << 64)


def _unxorshift(h, s):
    x = h
    for _ in range(64 // s + 1):
        x = h ^ (x >> s)
    return x


def unmix(h):
    h = _unxorshift(h, 47)
    h = (h * _INV_MIXC) & M64
    h = _unxorshift(h, 23)
    return h


def preimage8(target, seed):
    """The unique 8-byte key k with fasthash64(k, seed) == target."""
    # h0 = seed ^ 8m ; h1 = (h0 ^ mix(v)) * m ; out = mix(h1)
    h1 = unmix(target)
    x = (h1 * _INV_M) & M64
    mv = x ^ ((seed ^ (8 * FH_M)) & M64)
    v = unmix(mv)
    return v.to_bytes(8, "little")


# ---- published vectors (anchors).  A failure here is a harness error.

MURMUR_VECTORS = [
    (b"", 0, 0x00000000),
    (b"", 1, 0x514E28B7),
    (b"", 0xFFFFFFFF, 0x81F16F39),
    (b"\xff\xff\xff\xff", 0, 0x76293B50),
    (b"\x21\x43\x65\x87", 0, 0xF55B516B),
    (b"\x21\x43\x65\x87", 0x5082EDEE, 0x2362F9DE),
    (b"\x21\x43\x65", 0, 0x7E4A8634),
    (b"\x21\x43", 0, 0xA0F7B07A),
    (b"\x21", 0, 0x72661CF4),
    (b"\x00\x00\x00\x00", 0, 0x2362F9DE),
    (b"\x00\x00\x00", 0, 0x85F0B427),
    (b"\x00\x00", 0, 0x30F4C306),
    (b"\x00", 0, 0x514E28B7),
    (b"Hello, world!", 1234, 0xFAF6CDB3),
    (b"Hello, world!", 4321, 0xBF505788),
    (b"The quick brown fox jumps over the lazy dog", 0x9747B28C, 0x2FA826CD),
]


_K = b"0123456789abcdef"
# values produced by the smhasher C++ fasthash (quoted in the repository's tests/test_hashes.py)
FASTHASH32_VECTORS = [
    (_K, 0, 128551002), (_K, 5, 571860520), (_K[:15], 3, 4264631007), (_K[:14], 4, 3611610185),
    (_K[:13], 5, 2978977373), (_K[:12], 6, 2071843509), (_K[:11], 7, 3386775091),
    (_K[:10], 8, 2472970926), (_K[:9], 21, 1787443542), (_K[:8], 22, 2970440548),
    (_K[:7], 23, 3793135117), (_K[:6], 24, 3662885582), (_K[:5], 25, 2453668041),
    (_K[:4], 26, 635486060), (_K[:3], 27, 58999216), (_K[:2], 28, 3486011618),
    (_K[:1], 29, 3407281718), (b"test", 0, 2542785854), (b"abc", 1, 558486214),
    (b"123", 2, 3103508967),
]
MURMUR_VECTORS += [(b"test", 0, 3127628307), (b"abc", 1, 2859854335), (b"123", 2, 1498078391)]


def self_test():
    for buf, seed, want in FASTHASH32_VECTORS:
        got = fasthash32(buf, seed)
        if got != want:
            raise AssertionError(f"reference fasthash32 wrong on {buf!r},{seed}: {got} != {want}")
    for buf, seed, want in MURMUR_VECTORS:
        got = murmur3(buf, seed)
        if got != want:
            raise AssertionError(f"reference murmur3 wrong on {buf!r},{seed}: {got:#x} != {want:#x}")
    for t in (0, 1, M64, 0x0123456789ABCDEF):
        for s in (0, 1, M64, 1 << 32):
            if fasthash64(preimage8(t, s), s) != t:
                raise AssertionError("preimage8 is not an inverse")
            if mix(unmix(t)) != t:
                raise AssertionError("unmix is not an inverse")
