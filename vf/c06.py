"""C06 - log counters are exact in the reserved range and unbiased beyond it."""
import math

import numpy as np
from hypothesis import strategies as st

from vf import common, machines, models
from vf.cms_common import DRAWS, LOG_CFG, ONE_MINUS, UMAX, decode, min_counter
from vf.common import CEIL, Violation
from vf.world import CELLMAP, make_sketch, numba_rand, numba_seed, plant, sut

from sketchnu.countmin import CountMinLog8, CountMinLog16

RULE = (
    "Four sub-checks. (1) exhaustive: for a grid of configurations (log8 max_count in {300,1000,1e5,2^32-1,2^53,2^63} x num_reserved in "
    "{0,1,15,100,200}; log16 max_count in {70000,1e6,2^32-1,2^53,2^63} x num_reserved in {0,1,1023,30000}) and every counter value c (all 256; "
    "log16: all 65536 in thorough, every 16th plus +-2 around num_reserved and the maximum in quick) a 1x1 sketch with cms=c gets one add with a planted "
    "draw u in {0, P_c(1-1e-12), P_c(1+1e-12), 1-2^-53}, P_c = base^-(c-nr): below nr -> c+1 and no draw consumed; at the maximum -> unchanged, no draw; "
    "else exactly one draw consumed and c+1 iff u < P_c; decode: query(c)==c for c<=nr+1 (also on a grid of ~300 log-spaced max_count values x num_reserved in {0,1,2,15,umax/2}), query matches own decode to 1e-9, P_c*(value(c+1)-value(c))==1 "
    "to 1e-9. (2) exact replay: Numba's generator seeded, refill forced, random add(key,v) / add_ngram(short key) / update(list) / update(dict) calls (incl. single adds of 65536..100000) on collision-free keys; a Python model fed the "
    "jitted np.random.rand stream must reproduce every counter and rand_ptr, and every observed batch must be the next unused 2048-slice. "
    "(3) distribution: R replicates of N unit adds (N in {200,1000,5000} for 4 configurations, plus single bulk adds of 65536, 70000 and 200000) for 4 log8 configurations; empirical CDF of the final counter within the "
    "DKW band (delta=1e-10) of the exact Markov-chain CDF; pooled refill batches and pooled entropy-seeded initial batches within the DKW band of "
    "U[0,1), all in [0,1), distinct between sketches, also between fresh sketches created in 8 forked child processes; the batches a parallel_add worker's log sketch holds after each of 5 items of 3000 units (seen by the callback) are pairwise different within a call and across two calls of one process. (4) Hypothesis machine over 2 log sketches with merges, adversarial planted draws and single adds of 2^63-1 .. 2^64-1 (sketches with max_count <= 10^6): "
    "query(k) >= min(true,nr+1), collision-free keys with true <= nr+1 exact. Non-trivial: a case in which a draw is consumed (counter >= "
    "num_reserved) or a refill occurs. Distinct = distinct (configuration, counter, draw) / (configuration, N) / (configuration, step list)."
)
ASSUMPTIONS = [
    "draws are placed through the documented rand_nums/rand_ptr attributes; Numba's generator is seeded through a jitted np.random.seed",
    "boundary draws sit 1e-12 relative off the decision boundary (libm pow error is ~1e-16 relative)",
    "DKW inequality (finite-sample, valid for discrete laws) with delta=1e-10 per comparison",
]

LOG8_GRID = [(mc, nr) for mc in (300, 1000, 10**5, CEIL, 2**53, 2**63) for nr in (0, 1, 15, 100, 200)]
LOG16_GRID = [(mc, nr) for mc in (70000, 10**6, CEIL, 2**53, 2**63) for nr in (0, 1, 1023, 30000)]
KEY = b"k"


# ------------------------------------------------------------------ (1) counters x draws


def _counter_task(arg):
    kind, mc, nr, tier = arg
    rec = common.Recorder()
    cls = CountMinLog8 if kind == "log8" else CountMinLog16
    umax = UMAX[kind]
    try:
        # parameters as Python ints or, as the class loaders pass them, as np.uint64
        T = np.uint64 if (mc + nr) % 2 else int
        sk = cls(T(1), T(1), T(mc), T(nr))
    except ValueError:
        rec.count("config_rejected")
        return rec
    base = float(sk.base)
    cfg = {"kind": kind, "max_count": mc, "num_reserved": nr}
    if kind == "log8" or tier == "thorough":
        counters = range(umax + 1)
    else:
        cs = set(range(0, umax + 1, 16)) | {umax - 2, umax - 1, umax}
        for d in range(-2, 4):
            if 0 <= nr + d <= umax:
                cs.add(nr + d)
        counters = sorted(cs)
    n = nt = 0
    sample = None
    for c in counters:
        sk.cms[0, 0] = c
        q = float(sk.query(KEY))
        want = models.log_value(c, nr, base)
        if c <= nr + 1 and q != float(c):
            rec.violation(dict(cfg, c=c), f"{kind}{(mc, nr)}: counter {c} <= num_reserved+1 decodes to {q}, expected exactly {c}", "decode-reserved")
            return rec
        if abs(q - want) > 1e-9 * max(1.0, want):
            rec.violation(dict(cfg, c=c), f"{kind}{(mc, nr)}: counter {c} decodes to {q}, own decode gives {want}", "decode")
            return rec
        if c >= umax:
            draws = [0.0, ONE_MINUS]
            P = None
        elif c < nr:
            draws = [0.0, ONE_MINUS]
            P = None
        else:
            P = base ** (-(float(c - nr)))
            draws = [0.0, P * (1 - 1e-12), ONE_MINUS]
            if P * (1 + 1e-12) < 1.0:
                draws.append(P * (1 + 1e-12))
            dv = models.log_value(c + 1, nr, base) - want
            if abs(P * dv - 1.0) > 1e-9:
                rec.violation(dict(cfg, c=c), f"{kind}{(mc, nr)}: P_c*(value(c+1)-value(c)) = {P*dv} != 1 at c={c}", "martingale")
                return rec
        for u in draws:
            sk.cms[0, 0] = c
            sk.rand_nums[:] = u
            sk.rand_ptr = 0
            sk.add(KEY, 1)
            got = int(sk.cms[0, 0])
            used = int(sk.rand_ptr)
            if P is None:
                exp_c = c + 1 if c < umax else c
            else:
                exp_c = c + 1 if u < P else c
            n += 1
            case = dict(cfg, c=c, u=u)
            if P is not None:
                nt += 1
                if sample is None and c > nr + 3:
                    sample = case
            if got != exp_c:
                rec.violation(case, f"{kind}{(mc, nr)} base={base}: counter {c} with every draw = {u!r} (P_c={P}) -> {got}; expected {exp_c}", "advance-rule")
                rec.bulk(n, nt)
                return rec
            # a genuinely random decision (P_c < 1) that consumes no draw would reuse the same draw next time
            if P is not None and c > nr and used < 1:
                rec.violation(case, f"{kind}{(mc, nr)}: counter {c} decided a probabilistic step without consuming a draw (rand_ptr stayed {used})", "no-draw-consumed")
                rec.bulk(n, nt)
                return rec
    rec.bulk(n, nt, sample, {f"counter_draw_cases_{kind}": n})
    return rec


def _decode_grid(arg):
    """The first counter above the reserved range decodes to exactly num_reserved+1 for EVERY configuration (the
    value is (base^1-1)/(base-1)+nr = 1+nr; an algebraically equivalent but differently rounded formula is not exact
    for some bases): many max_count values x num_reserved in {0,1,2,15,255-ish}."""
    kind, lo, hi = arg
    rec = common.Recorder()
    cls = CountMinLog8 if kind == "log8" else CountMinLog16
    umax = UMAX[kind]
    n = 0
    mcs = sorted({int(10 ** (2.5 + 0.055 * t)) for t in range(lo, hi)} | {1004, 1024, 10**7, 10**8, 10**9} if lo == 0 else {int(10 ** (2.5 + 0.055 * t)) for t in range(lo, hi)})
    for mc in mcs:
        if mc <= umax:
            continue
        for nr in (0, 1, 2, 15, umax // 2):
            try:
                sk = cls(1, 1, mc, nr)
            except ValueError:
                continue
            for c in (nr, nr + 1):
                sk.cms[0, 0] = c
                q = float(sk.query(KEY))
                n += 1
                if q != float(c):
                    rec.violation({"kind": kind, "max_count": mc, "num_reserved": nr, "c": c, "decode_grid": True}, f"{kind}(max_count={mc}, num_reserved={nr}) base={float(sk.base)!r}: counter {c} <= num_reserved+1 decodes to {q!r}, expected exactly {c}", "decode-reserved")
                    rec.bulk(n, n)
                    return rec
    rec.bulk(n, n, {"kind": kind, "decode_grid": [lo, hi]}, {"decode_grid_cases": n})
    return rec


def replay_counter(case):
    cls = CountMinLog8 if case["kind"] == "log8" else CountMinLog16
    r = _counter_task((case["kind"], case["max_count"], case["num_reserved"], "thorough"))
    if r.violations:
        raise Violation(r.violations[0]["msg"], r.violations[0]["signature"])


# ------------------------------------------------------------------ (2) exact replay


def _replay_task(arg):
    kind, mc, nr, seed = arg
    rec = common.Recorder()
    cls = CountMinLog8 if kind == "log8" else CountMinLog16
    rng = np.random.default_rng(seed)
    width, depth = 64, 2
    cfg = {"kind": kind, "width": width, "depth": depth, "max_count": mc, "num_reserved": nr}
    sk = cls(width, depth, mc, nr)
    base = float(sk.base)
    umax = UMAX[kind]
    # keys that are collision-free among themselves in both rows
    keys, used_cells = [], [set(), set()]
    i = 0
    while len(keys) < 6:
        k = b"key%d" % i
        i += 1
        cells = CELLMAP.cells(cfg, k)
        if all(cells[r] not in used_cells[r] for r in range(depth)):
            keys.append(k)
            for r in range(depth):
                used_cells[r].add(cells[r])
    nseed = int(seed % (2**31))
    # calls: ("add", ki, v) | ("ngram_short", ki) (len(key) <= n: one unit add) | ("list", [ki..]) | ("dict", [(ki, v)..])
    calls = []
    for t in range(60):
        kind_ = rng.choice(["add", "add", "add", "ngram_short", "list", "dict"])
        if kind_ == "add":
            v = int(rng.choice([1, 1, 2, 7, 50, 400, 1500]))
            if t in (17, 41) and kind == "log8":
                v = int(rng.choice([65536, 70000, 100000]))  # bulk adds beyond 2^16 must follow the same law
            calls.append(("add", int(rng.integers(0, len(keys))), v))
        elif kind_ == "ngram_short":
            calls.append(("ngram_short", int(rng.integers(0, len(keys)))))
        elif kind_ == "list":
            calls.append(("list", [int(x) for x in rng.integers(0, len(keys), int(rng.integers(1, 6)))]))
        else:
            ks = sorted(set(int(x) for x in rng.integers(0, len(keys), int(rng.integers(1, 4)))))
            calls.append(("dict", [(k_, int(rng.choice([1, 3, 40, 300]))) for k_ in ks]))

    def units(c):
        if c[0] == "add":
            return [(c[1], c[2])]
        if c[0] == "ngram_short":
            return [(c[1], 1)]
        if c[0] == "list":
            return [(k_, 1) for k_ in c[1]]
        return list(c[1])

    steps = calls
    total = sum(v for c in calls for _, v in units(c))
    nb = total // 2048 + 3
    numba_seed(nseed)
    stream = numba_rand(2048 * nb).copy()
    numba_seed(nseed)
    sk.rand_ptr = 2048  # never read the entropy-seeded batch: the first draw refills
    counters = [0] * len(keys)
    pos = 0  # number of stream values consumed so far, as observed through rand_ptr / batch changes
    batch = -1  # index of the stream slice currently held in rand_nums (-1: the initial, never-read batch)
    cur = np.array(sk.rand_nums, copy=True)
    case = {"kind": kind, "max_count": mc, "num_reserved": nr, "seed": int(seed), "replay": True}
    consumed_any = False
    unexplained = 0
    for call in steps:
        ptr0 = int(sk.rand_ptr)
        if call[0] == "add":
            sk.add(keys[call[1]], call[2])
        elif call[0] == "ngram_short":
            sk.add_ngram(keys[call[1]], len(keys[call[1]]) + int(call[1] % 2))
        elif call[0] == "list":
            sk.update([keys[k_] for k_ in call[1]])
        else:
            sk.update({keys[k_]: v_ for k_, v_ in call[1]})
        ki, v = units(call)[0][0], sum(v_ for _, v_ in units(call))
        ptr1 = int(sk.rand_ptr)
        # --- freshness, independent of how many draws a step consumes: whenever the batch changes it
        # must become the next unused 2048-slice of the generator stream (several refills per add possible)
        now = np.array(sk.rand_nums, copy=True)
        refills = 0
        if not np.array_equal(now, cur):
            found = None
            for b in range(batch + 1, nb):
                if np.array_equal(now, stream[b * 2048 : (b + 1) * 2048]):
                    found = b
                    break
            if found is None:
                rec.violation(case, f"{kind}{(mc, nr)}: after {call[0]} call the draw batch is not an unused 2048-slice of the generator stream following slice {batch} (recycled, re-used or not replenished)", "batch-not-fresh")
                return rec
            refills = found - batch
            batch = found
            cur = now
        elif ptr1 < ptr0:
            rec.violation(case, f"{kind}{(mc, nr)}: rand_ptr moved backwards {ptr0} -> {ptr1} without a new batch (draws re-read)", "batch-not-fresh")
            return rec
        d = (ptr1 - ptr0) if refills == 0 else (2048 - ptr0) + (refills - 1) * 2048 + ptr1
        if ptr1 > 2048 or d < 0:
            rec.violation(case, f"{kind}{(mc, nr)}: rand_ptr {ptr1} out of range", "rand-ptr-range")
            return rec
        got = [min_counter(sk, cfg, keys[k_]) for k_ in range(len(keys))]
        # --- the counters must be what the law yields for exactly the draws that were consumed.  At
        # c == num_reserved the step is certain, so a draw may or may not be spent there: both explained.
        def model(boundary):
            cs = list(counters)
            used = 0
            for k_, v_ in units(call):
                cs[k_], u_ = models.log_counter_model(cs[k_], nr, umax, base, iter(stream[pos + used :]), v_, boundary)
                used += u_
            return cs, used

        cA, uA = model(True)
        cB, uB = model(False)
        what = f"{call[0]} call {call[1:]}"
        if d == uA and got == cA:
            pass
        elif d == uB and got == cB:
            pass
        elif d in (uA, uB):
            want = cA if d == uA else cB
            rec.violation(case, f"{kind}{(mc, nr)}: {what} from counters {counters} consumed {d} draws of Numba's stream and ended at {got}; the update law applied to exactly those draws gives {want}", "replay-mismatch")
            return rec
        elif d < uB:
            rec.violation(case, f"{kind}{(mc, nr)}: {what} from counters {counters} consumed only {d} draws for at least {uB} probabilistic decisions", "no-draw-consumed")
            return rec
        else:
            unexplained += 1  # another consumption pattern: law checked by sub-checks 1 and 3 only
        counters = got
        pos += d
        consumed_any = consumed_any or d > 0
    batches_seen = batch + 1
    if unexplained:
        rec.count("replay_steps_with_other_draw_pattern", unexplained)
    rec.case(case, consumed_any and batches_seen >= 2, [f"replay_{kind}", f"replay_batches={min(batches_seen, 5)}"])
    return rec


# ------------------------------------------------------------------ (3) distribution


def dkw_eps(n, delta=1e-10):
    return math.sqrt(math.log(2.0 / delta) / (2.0 * n))


DIST_CFGS = [(6000, 15), (CEIL, 15), (2**63, 0), (1000, 100)]


def _dist_task(arg):
    mc, nr, N, R, seed, unit_calls = arg
    rec = common.Recorder()
    T = np.uint64 if N % 2000 == 1000 else int
    sk = CountMinLog8(T(1), T(1), T(mc), T(nr))
    base = float(sk.base)
    numba_seed(int(seed % (2**31)))
    sk.rand_ptr = 2048
    finals = np.zeros(R, np.int64)
    for r in range(R):
        sk.cms[0, 0] = 0
        if unit_calls:
            for _ in range(N):
                sk.add(KEY, 1)
        else:
            sk.add(KEY, N)
        finals[r] = int(sk.cms[0, 0])
    exact = models.log_chain_distribution(nr, 255, base, N)
    cdf = np.cumsum(exact)
    emp = np.cumsum(np.bincount(finals, minlength=256)[:256]) / float(R)
    dist = float(np.max(np.abs(emp - cdf)))
    eps = dkw_eps(R)
    case = {"kind": "log8", "max_count": mc, "num_reserved": nr, "N": N, "R": R, "seed": int(seed), "unit_calls": unit_calls, "dist": True}
    # expected decoded value under the exact chain (evidence only)
    vals = np.array([models.log_value(c, nr, base) for c in range(256)])
    rec.notes[f"mean_est_over_N_{mc}_{nr}_{N}"] = round(float(np.mean(vals[finals])) / N, 4)
    if dist > eps:
        rec.violation(case, f"log8{(mc, nr)} N={N}: sup|empirical CDF - exact Markov-chain CDF| = {dist:.4f} > DKW band {eps:.4f} over {R} replicates (mean counter {finals.mean():.2f}, exact {float((exact*np.arange(256)).sum()):.2f})", "distribution")
    rec.case(case, True, ["distribution_cells"], n=R)
    return rec


def _uniform_task(arg):
    seed, nbatches = arg
    rec = common.Recorder()
    # (a) refilled batches
    sk = CountMinLog8(1, 1, 2**63, 0)
    numba_seed(int(seed % (2**31)))
    sk.rand_ptr = 2048
    pool = []
    prev = None
    for b in range(nbatches):
        sk.cms[0, 0] = 200  # deep in the probabilistic range, practically never advances
        sk.rand_ptr = 2048
        sk.add(KEY, 1)
        cur = np.array(sk.rand_nums, copy=True)
        if prev is not None and np.array_equal(prev, cur):
            rec.violation({"uniform": True, "seed": int(seed)}, "a refill produced the same 2048 draws as the previous batch (recycled)", "batch-not-fresh")
            return rec
        prev = cur
        pool.append(cur)
    allv = np.concatenate(pool)
    _uniform_check(rec, allv, "refilled batches", {"uniform": True, "seed": int(seed), "nbatches": nbatches})
    # (b) entropy-seeded initial batches of fresh sketches
    init = []
    for _ in range(50):
        s = CountMinLog8(1, 1)
        init.append(np.array(s.rand_nums, copy=True))
        if int(s.rand_ptr) != 0:
            rec.violation({"uniform": True}, f"fresh sketch starts with rand_ptr={s.rand_ptr}", "rand-ptr-init")
    if any(np.array_equal(init[0], x) for x in init[1:]):
        rec.violation({"uniform": True}, "two fresh sketches start with identical draw batches", "batch-not-fresh")
    _uniform_check(rec, np.concatenate(init), "initial batches of 50 fresh sketches", {"uniform": True, "initial": True})
    rec.case({"uniform": True, "seed": int(seed), "nbatches": nbatches}, True, ["uniformity_pools"], n=2)
    return rec


def _fork_task(arg):
    """runs in a forked pool child: the first draw batches of fresh log sketches created there"""
    import hashlib
    import os
    import time

    time.sleep(0.3)  # spread the tasks over several children
    out = []
    for cls in (CountMinLog8, CountMinLog16, CountMinLog8):
        s = cls(2, 1)
        out.append(hashlib.sha1(np.array(s.rand_nums).tobytes()).hexdigest())
    return os.getpid(), out


def fork_freshness(rec):
    """children forked after sketchnu was imported (a fork-context pool, os.fork in user code) must not share draw batches"""
    res = common.pool_map(_fork_task, list(range(8)), nproc=8)
    pids = {p for p, _ in res}
    allh = [h for _, hs in res for h in hs]
    case = {"fork_freshness": True}
    if len(set(allh)) != len(allh):
        rec.violation(case, f"fresh log sketches created in {len(pids)} forked child processes start with identical draw batches ({len(allh) - len(set(allh))} repeats among {len(allh)})", "batch-not-fresh")
    rec.case(case, len(pids) >= 2, ["fresh_sketches_in_forked_children"], n=len(allh))


def _parallel_refill_task(arg):
    """Two parallel_add calls of one process with a log sketch whose workers consume several 2048-draw batches: the batches a
    worker's sketch holds after each item (seen by the callback) must be new every time - within a call and across calls."""
    import hashlib

    from vf import cbmod, fakectx
    import sketchnu.helpers as helpers

    kind, nr = arg
    rec = common.Recorder()
    case = {"parallel_refill": True, "kind": kind, "num_reserved": nr}
    items = [{"keys": [b"k%d" % i], "mult": [3000], "ngram": None, "ret": 1, "mode": "ok", "idx": i} for i in range(5)]
    seen = []

    def observe(sketches):
        for sk in sketches:
            if hasattr(sk, "rand_nums"):
                seen[-1].append(hashlib.sha1(np.array(sk.rand_nums).tobytes()).hexdigest())

    cbmod.observe_hook = observe
    try:
        for run_i in range(2):
            seen.append([])
            with fakectx.Patched({0: list(range(len(items)))}, 1):
                try:
                    res = helpers.parallel_add(list(items), cbmod.process_item, n_workers=1, cms_args={"cms_type": kind, "width": 64, "depth": 1, "max_count": 2**40, "num_reserved": nr})
                except Exception as e:  # noqa
                    rec.violation(case, f"parallel_add raised {type(e).__name__}: {e}", "parallel-add-raised")
                    return rec
            del res
    finally:
        cbmod.observe_hook = None
        fakectx.remove_segments(fakectx.leaked_segments())
    a, b = seen
    if len(a) != len(items) or len(b) != len(items):
        raise common.HarnessError(f"callback observed {len(a)}/{len(b)} batches for {len(items)} items")
    if len(set(a)) != len(a) or len(set(b)) != len(b):
        rec.violation(case, "a worker's draw batch was the same after two consecutive items that each consume 3000 draws (recycled)", "batch-not-fresh")
    elif set(a) & set(b):
        rec.violation(case, f"{len(set(a) & set(b))} of the {len(a)} draw batches a worker held in the second parallel_add call are identical to batches of the first call (draws recycled from run to run)", "batch-not-fresh")
    rec.case(case, True, ["parallel_add_refills_across_two_calls"], n=len(a) + len(b))
    return rec


def _uniform_check(rec, v, what, case):
    if not (np.all(v >= 0.0) and np.all(v < 1.0)):
        rec.violation(case, f"{what}: a draw lies outside [0,1)", "draw-range")
        return
    s = np.sort(v)
    n = len(s)
    d = max(float(np.max(np.arange(1, n + 1) / n - s)), float(np.max(s - np.arange(0, n) / n)))
    if d > dkw_eps(n):
        rec.violation(case, f"{what}: sup|ECDF - U[0,1)| = {d:.5f} > DKW band {dkw_eps(n):.5f} (n={n})", "draw-not-uniform")


# ------------------------------------------------------------------ (4) lower bound on histories


class LowerBound:
    def __init__(self, world, case):
        self.w = world
        self.U = list(case.get("U", []))
        self.nt = set()

    def __call__(self, touched, step):
        w = self.w
        cfg = w.cfg
        for i in range(w.n):  # all sketches, not only the touched one
            sk = w.sk[i]
            nr = int(sk.num_reserved)
            true = w.true[i]
            pos = {k: t for k, t in true.items() if t > 0}
            cells = {k: CELLMAP.cells(cfg, k) for k in set(self.U) | set(true)}
            for k in sorted(cells):
                t = true.get(k, 0)
                q = float(sut(sk.query, k))
                if q < min(t, nr + 1):
                    raise Violation(f"{cfg['kind']} sketch {i}: query({k!r})={q} below min(true={t}, num_reserved+1={nr+1})", "log-lower-bound")
                free = any(all(cells[o][r] != cells[k][r] for o in pos if o != k) for r in range(cfg["depth"]))
                if free and t <= nr + 1 and q != float(t):
                    raise Violation(f"{cfg['kind']} sketch {i}: key {k!r} is collision-free in a row and has true count {t} <= num_reserved+1={nr+1} but query()={q}", "log-reserved-not-exact")
                if t > nr + 1:
                    self.nt.add("beyond_reserved")
        if step["op"] == "merge":
            self.nt.add("merge")

    def flags(self):
        return "beyond_reserved" in self.nt, sorted(self.nt)


def _machine_shard(arg):
    seed, shard, n_examples, steps = arg
    rec = common.Recorder()
    holder = {}
    M = machines.make_machine(
        "C06Machine", LowerBound, rec, holder, CFG=LOG_CFG, N=2,
        VALUES=st.one_of(st.sampled_from([0, 1, 1, 2, 3, 16, 17, 100]), st.integers(0, 40), st.sampled_from([1024, 1025, 2000])),
        DRAWS=st.one_of(st.just([ONE_MINUS]), st.just([ONE_MINUS]), DRAWS), SAVELOAD=True, MAXKEY=24, add_huge_log=machines.huge_log_rule(),
    )
    common.run_machine(M, common.derive_seed(seed, "C06", shard), n_examples, steps, holder, rec, retry=lambda c_: machines.replay_trace(c_, LowerBound))
    return rec


# ------------------------------------------------------------------ driver


def run(tier, seed, rec):
    quick = tier == "quick"
    jobs = [("log8", mc, nr, tier) for mc, nr in LOG8_GRID] + [("log16", mc, nr, tier) for mc, nr in LOG16_GRID]
    common.pool_merge(_counter_task, jobs, rec)
    common.pool_merge(_decode_grid, [(k, lo, lo + 38) for k in ("log8", "log16") for lo in range(0, 304, 38)], rec)
    if not rec.violations:
        rec.exhaustive.append("sub-check 1: every listed configuration x every enumerated counter value x 3-4 boundary draws (log8: all 256 counters; log16: all 65536 in thorough)")
    rj = []
    for t, (kind, mc, nr) in enumerate([("log8", CEIL, 15), ("log8", 1000, 0), ("log16", CEIL, 1023), ("log16", 70000, 0), ("log8", 2**63, 1), ("log16", 10**6, 1)]):
        for rep in range(2 if quick else 8):
            rj.append((kind, mc, nr, common.derive_seed(seed, "C06-replay", t, rep)))
    common.pool_merge(_replay_task, rj, rec)
    R = 4000 if quick else 40000
    dj = []
    for t, (mc, nr) in enumerate(DIST_CFGS):
        for N in (200, 1000, 5000):
            dj.append((mc, nr, N, R, common.derive_seed(seed, "C06-dist", t, N), False))
    dj.append((CEIL, 15, 300, 400 if quick else 4000, common.derive_seed(seed, "C06-dist-unit"), True))
    # bulk adds beyond 2^16 and 2^17 in one call follow the same chain
    for t, (mc, nr, N) in enumerate([(CEIL, 15, 70000), (2**63, 0, 200000), (10**7, 100, 65536)]):
        dj.append((mc, nr, N, 1500 if quick else 15000, common.derive_seed(seed, "C06-dist-big", t), False))
    common.pool_merge(_dist_task, dj, rec)
    common.pool_merge(_uniform_task, [(common.derive_seed(seed, "C06-unif"), 200 if quick else 2000)], rec)
    fork_freshness(rec)
    common.pool_merge(_parallel_refill_task, [("log8", 15), ("log16", 1023)] if quick else [("log8", 15), ("log16", 1023), ("log8", 0), ("log16", 3)], rec)
    n_ex, steps, shards = (60, 40, 16) if quick else (300, 50, 32)
    common.pool_merge(_machine_shard, [(seed, i, n_ex, steps) for i in range(shards)], rec)


def replay(case):
    if case.get("replay"):
        r = _replay_task((case["kind"], case["max_count"], case["num_reserved"], case["seed"]))
    elif case.get("dist"):
        r = _dist_task((case["max_count"], case["num_reserved"], case["N"], case["R"], case["seed"], case["unit_calls"]))
    elif case.get("fork_freshness"):
        r = common.Recorder()
        fork_freshness(r)
    elif case.get("parallel_refill"):
        r = _parallel_refill_task((case["kind"], case["num_reserved"]))
    elif case.get("uniform"):
        r = _uniform_task((case.get("seed", 1), case.get("nbatches", 200)))
    elif "steps" in case:
        machines.replay_trace(case, LowerBound)
        return
    elif case.get("decode_grid"):
        sk = (CountMinLog8 if case["kind"] == "log8" else CountMinLog16)(1, 1, case["max_count"], case["num_reserved"])
        sk.cms[0, 0] = case["c"]
        if float(sk.query(KEY)) != float(case["c"]):
            raise Violation(f"counter {case['c']} decodes to {float(sk.query(KEY))!r}", "decode-reserved")
        return
    else:
        r = _counter_task((case["kind"], case["max_count"], case["num_reserved"], "thorough"))
    if r.violations:
        raise Violation(r.violations[0]["msg"], r.violations[0]["signature"])
