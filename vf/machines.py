"""Hypothesis rule-based machine over sketch histories (thin wrappers around World.apply).

Subclasses set class attributes:
  CFG        strategy for the configuration dict
  N          number of sketches
  VALUES     strategy for multiplicities
  MAXKEY     maximum generated key length
  DRAWS      strategy for planted uniform draws (log kinds) or None
  SELF_MERGE allow merge(i, i)
  SAVELOAD   include the save_load rule
and implement  check(self, touched, step)  (raise Violation) and optionally
  flags(self) -> (nontrivial: bool, classes: list[str])  evaluated at teardown.
The executed trace is plain data; replaying it through replay_trace() bypasses Hypothesis.
"""
from hypothesis import strategies as st
from hypothesis.stateful import RuleBasedStateMachine, initialize, precondition, rule

from vf import strategies as vs
from vf.common import CEIL, Violation
from vf.world import World

IDX = st.integers(0, 31)
VT = st.sampled_from([None, None, None, None, "i64", "u64", "u32", "i32", "u16", "u8"])
SK = st.integers(0, 7)
# ngram sizes: ordinary ones, and sizes that do not fit 32 bits (every key is then shorter than the ngram and is added whole)
NGRAM_SIZES = st.one_of(st.integers(1, 9), st.integers(1, 9), st.integers(1, 9), st.integers(1, 9), st.sampled_from([2**32, 2**32 + 1, 2**32 + 2, 2**40 + 3, 2**63, 2**64 - 1]))


class HistoryMachine(RuleBasedStateMachine):
    CFG = None
    N = 2
    VALUES = vs.multiplicities(True)
    MAXKEY = 64
    DRAWS = None
    SELF_MERGE = False
    SAVELOAD = True
    NGRAM = True
    LONG_LISTS = True
    REC = None  # Recorder of this shard
    HOLDER = None  # dict receiving the failing case

    def __init__(self):
        super().__init__()
        self.world = None
        self.trace = None
        self.U = None
        self.failed = False

    # -- to be provided by subclasses
    def check(self, touched, step):
        raise NotImplementedError

    def flags(self):
        return True, []

    def before(self, step):
        pass

    def extra_init(self):
        pass

    def draw_universe(self, data, cfg):
        return data.draw(vs.universe(3, 8, self.MAXKEY), label="universe")

    # -- plumbing
    @initialize(data=st.data())
    def init(self, data):
        cfg = data.draw(self.CFG, label="cfg")
        self.U = self.draw_universe(data, cfg)
        shm = data.draw(st.sampled_from([False, False, False, False, True]), label="shared_memory")
        self.world = World(cfg, self.N, shm=shm)
        self.trace = {"cfg": cfg, "n": self.N, "U": list(self.U), "shm": shm, "steps": []}
        self.extra_init()

    def key(self, ki):
        return self.U[ki % len(self.U)]

    def do(self, step):
        if self.DRAWS is not None and self.world.kind in ("log16", "log8") and "draws" not in step and step["op"] not in ("merge", "save_load", "query", "bad_query", "copy"):
            raise AssertionError("log step without draws")
        self.trace["steps"].append(step)
        try:
            self.before(step)
            touched = self.world.apply(step)
            self.check(touched, step)
        except Violation:
            self.failed = True
            self.HOLDER["case"] = {"cfg": self.trace["cfg"], "n": self.N, "U": list(self.U), "shm": self.trace["shm"], "steps": list(self.trace["steps"])}
            raise

    def teardown(self):
        if self.world is not None:
            if not self.failed and self.REC is not None and self.trace["steps"]:
                nt, classes = self.flags()
                self.REC.case(self.trace, nt, classes)
            self.world.close()
            self.world = None

    def _draws(self, data):
        if self.DRAWS is None or self.world.kind not in ("log16", "log8"):
            return {}
        return {"draws": data.draw(self.DRAWS, label="draws")}

    # -- rules
    @rule(i=SK, ki=IDX, data=st.data())
    def add(self, i, ki, data):
        v = data.draw(self.VALUES, label="v")
        vt = data.draw(VT, label="vt")
        self.do({"op": "add", "i": i % self.N, "k": self.key(ki), "v": v, **({"vt": vt} if vt else {}), **self._draws(data)})

    @rule(i=SK, kis=st.lists(IDX, min_size=0, max_size=6), how=st.sampled_from(["list", "list", "tuple", "iter", "reentrant"]), data=st.data())
    def update_list(self, i, kis, how, data):
        extra = {"extra": self.key(data.draw(IDX, label="extra"))} if how == "reentrant" else {}
        self.do({"op": "update_list", "i": i % self.N, "keys": [self.key(k) for k in kis], **({"as": how} if how != "list" else {}), **extra, **self._draws(data)})

    @precondition(lambda self: self.LONG_LISTS)
    @rule(i=SK, kis=st.lists(IDX, min_size=2, max_size=5), n=st.sampled_from([255, 256, 257, 300, 1024]), data=st.data())
    def update_long_list(self, i, kis, n, data):
        """one update(list) with hundreds of entries: a short pattern over the universe repeated cyclically"""
        keys = [self.key(kis[t % len(kis)]) for t in range(n)]
        self.do({"op": "update_list", "i": i % self.N, "keys": keys, **self._draws(data)})

    @rule(i=SK, kis=st.lists(IDX, min_size=0, max_size=5), data=st.data())
    def update_dict(self, i, kis, data):
        items = [[self.key(k), data.draw(self.VALUES, label="v")] for k in kis]
        vt = data.draw(VT, label="vt")
        how = data.draw(st.sampled_from(["dict", "dict", "counter"]), label="as")
        self.do({"op": "update_dict", "i": i % self.N, "items": items, **({"vt": vt} if vt else {}), **({"as": how} if how != "dict" else {}), **self._draws(data)})

    @precondition(lambda self: self.NGRAM)
    @rule(i=SK, ki=IDX, n=NGRAM_SIZES, data=st.data())
    def add_ngram(self, i, ki, n, data):
        self.do({"op": "add_ngram", "i": i % self.N, "k": self.key(ki), "n": n, **self._draws(data)})

    @precondition(lambda self: self.NGRAM)
    @rule(i=SK, kis=st.lists(IDX, min_size=0, max_size=3), n=NGRAM_SIZES, how=st.sampled_from(["list", "list", "iter"]), data=st.data())
    def update_ngram(self, i, kis, n, how, data):
        self.do({"op": "update_ngram", "i": i % self.N, "keys": [self.key(k) for k in kis], "n": n, **({"as": how} if how != "list" else {}), **self._draws(data)})

    @precondition(lambda self: self.N > 1 or self.SELF_MERGE)
    @rule(i=SK, j=SK)
    def merge(self, i, j):
        i, j = i % self.N, j % self.N
        if i == j and not self.SELF_MERGE:
            j = (i + 1) % self.N
        self.do({"op": "merge", "i": i, "j": j})

    @rule(i=SK, how=st.sampled_from(["deepcopy", "pickle"]))
    def copy_sketch(self, i, how):
        self.do({"op": "copy", "i": i % self.N, "how": how})

    @precondition(lambda self: self.SAVELOAD)
    @rule(i=SK, via=st.sampled_from(["class", "module"]), shm=st.sampled_from([False, False, False, True]), slot=st.sampled_from([None, None, 0, 0, 1]))
    def save_load(self, i, via, shm, slot):
        step = {"op": "save_load", "i": i % self.N, "via": via, "shm": shm}
        if slot is not None:
            step["slot"] = slot
        self.do(step)


def replay_trace(case, checker_factory):
    """Re-execute a recorded trace outside Hypothesis.  checker_factory(world, case) returns
    check(touched, step)."""
    w = World(case["cfg"], case.get("n", 2), shm=case.get("shm", False))
    try:
        check = checker_factory(w, case)
        for step in case["steps"]:
            if hasattr(check, "before"):
                check.before(step)
            touched = w.apply(step)
            check(touched, step)
    finally:
        w.close()


def huge_log_rule():
    """add(key, v) with v around 2^63..2^64-1 on a log sketch: the kernel stops at the ceiling, so the call is cheap
    whenever max_count is small (expected ~max_count loop iterations)"""

    @rule(i=SK, ki=IDX, v=st.sampled_from([2**63 - 1, 2**63, 2**63 + 5, 2**64 - 1]), d=st.sampled_from([[0.0], [0.0, 0.5, 1.0 - 2.0**-53], [1.0 - 2.0**-53, 0.0]]))
    def add_huge_log(self, i, ki, v, d):
        cfg = self.world.cfg
        if cfg["kind"] in ("log8", "log16") and cfg.get("max_count", CEIL) <= 10**6:
            # the planted draws fill the current batch of 2048 (tiled); the kernel refills it from its generator afterwards.
            # Every planted batch contains 0.0 (always advance), so the call ends at the ceiling even on a tree that
            # recycles its batch instead of refilling it
            self.do({"op": "add", "i": i % self.N, "k": self.key(ki), "v": v, "draws": d})

    return add_huge_log


def make_machine(name, checker_cls, rec, holder, **attrs):
    """Build a HistoryMachine subclass whose oracle is checker_cls(world, case):
    checker(touched, step) raises Violation; checker.flags() -> (nontrivial, classes)."""

    def extra_init(self):
        self.checker = checker_cls(self.world, self.trace)

    def check(self, touched, step):
        self.checker(touched, step)

    def flags(self):
        return self.checker.flags()

    def before(self, step):
        if hasattr(self.checker, "before"):
            self.checker.before(step)

    d = dict(attrs)
    d.update(extra_init=extra_init, check=check, flags=flags, before=before, REC=rec, HOLDER=holder)
    return type(name, (HistoryMachine,), d)
