"""C13 - query(k, threshold) is the exact, fresh top-k of the sketch's stored counts."""
from collections import Counter

from hypothesis import strategies as st
from hypothesis.stateful import precondition, rule

from vf import common, machines
from vf.common import CEIL, Violation
from vf.hh_common import hh_universe, none_threshold_ok, t_eff, fresh_copy
from vf.world import sut

RULE = (
    "Hypothesis rule-based machine over 2 HeavyHitters sketches (width 1..8, depth 1..3, max_key_len 2..8, NUL-alias key universe), rules "
    "add/update(list|dict)/add_ngram/merge/save_load interleaved with query(i,k,t), k in {1,2,3,10^9}, t in {None,0,1,2..10,2^32-1}, and "
    "requery (the same arguments again, then a different threshold, then the first again: cache hit and miss paths). Oracle per query, "
    "evaluated on the answer obtained FIRST, before any helper call touches the sketch: length <= k; keys distinct; counts non-increasing; "
    "each count == hh[key] and >= effective threshold (floor(phi*n_added) for None); counts == first k counts of query(10^9,t); every model "
    "key with hh[key] >= max(threshold,1) is in the unbounded answer; and the answer equals (as count sequence and, for k=inf, as a multiset of pairs) "
    "that of HeavyHitters.load(save(sketch)) queried with the same arguments. Non-trivial: a query that follows a state change or a "
    "different threshold since the previous query on that sketch and returns >= 2 candidates. Distinct = distinct (configuration, step list)."
)
ASSUMPTIONS = [
    "a freshly loaded copy has no cached candidate set other than the one load() builds, so it is the freshness oracle",
    "total multiplicities are kept below 2^32 so that the default threshold floor(phi*n_added) fits the documented 32-bit threshold",
]

CFG = st.builds(
    lambda w, d, mkl, phi: {"kind": "hh", "width": w, "depth": d, "max_key_len": mkl, "phi": phi},
    st.sampled_from([1, 2, 2, 3, 4, 8]), st.integers(1, 3), st.sampled_from([2, 3, 4, 8]), st.sampled_from([None, None, 0.05, 0.3]),
)
VALUES = st.one_of(st.sampled_from([0, 1, 1, 2, 3, 5, 20]), st.integers(0, 12))
KS = st.sampled_from([1, 2, 3, 10**9, 10**9])
TS = st.one_of(st.sampled_from([None, None, 0, 1, CEIL]), st.integers(2, 10))


class QueryChecker:
    def __init__(self, world, case):
        self.w = world
        self.U = list(case.get("U", []))
        self.nt = set()
        self.dirty = [True] * world.n  # state changed since the last query on this sketch
        self.last_t = [object()] * world.n

    def __call__(self, touched, step):
        op = step["op"]
        if op == "query":
            self.check_query(step["i"], step["k"], step["t"])
        elif op == "save_load":
            for i in touched:
                self.dirty[i] = True
        else:
            for i in touched:
                self.dirty[i] = True

    def check_query(self, i, k, t):
        w = self.w
        sk = w.sk[i]
        if t is None and not none_threshold_ok(sk):
            return
        ans = sut(sk.query, k, t)  # the answer under test, taken first
        changed = self.dirty[i] or self.last_t[i] != t
        self.dirty[i] = False
        self.last_t[i] = t
        te = t_eff(sk, t)
        fresh = fresh_copy(w, sk)
        want = sut(fresh.query, k, t)
        ctx = f"sketch {i} query({k},{t}) [effective threshold {te}]"
        if len(ans) > k:
            raise Violation(f"{ctx}: returned {len(ans)} > k entries", "too-many")
        keys = [a[0] for a in ans]
        counts = [int(a[1]) for a in ans]
        if len(set(keys)) != len(keys):
            raise Violation(f"{ctx}: duplicate keys {keys}", "duplicate-keys")
        if any(counts[j] < counts[j + 1] for j in range(len(counts) - 1)):
            raise Violation(f"{ctx}: counts not non-increasing {counts}", "not-sorted")
        for key, c in zip(keys, counts):
            direct = int(sut(fresh.__getitem__, key))
            if c != direct:
                raise Violation(f"{ctx}: reports ({key!r},{c}) but hh[key]={direct} (stale or wrong count)", "count-ne-getitem")
            if c < te:
                raise Violation(f"{ctx}: reports ({key!r},{c}) below the threshold", "below-threshold")
        wcounts = [int(a[1]) for a in want]
        if counts != wcounts:
            raise Violation(f"{ctx}: counts {counts} differ from a freshly loaded copy's {wcounts}", "stale-vs-fresh")
        if k >= 10**9 and Counter((a[0], int(a[1])) for a in ans) != Counter((a[0], int(a[1])) for a in want):
            raise Violation(f"{ctx}: answer {ans} differs from a freshly loaded copy's {want}", "stale-vs-fresh")
        unb = sut(fresh.query, 10**9, t)
        ucounts = [int(a[1]) for a in unb]
        if counts != ucounts[: len(counts)] or (len(counts) < min(k, len(ucounts))):
            raise Violation(f"{ctx}: counts {counts} are not the first {k} of the unbounded answer {ucounts}", "not-prefix")
        ukeys = {a[0] for a in unb}
        for key, tr in sorted(w.true[i].items()):
            if tr > 0 and len(key) <= w.cfg["max_key_len"]:
                direct = int(sut(fresh.__getitem__, key))
                if direct >= max(te, 1) and key not in ukeys:
                    raise Violation(f"{ctx}: added key {key!r} with hh[key]={direct} >= threshold is missing from the unbounded answer {unb}", "missing-key")
        # same-object consistency: direct lookups on the queried object agree with the copy
        for key in keys[:3]:
            if int(sut(sk.__getitem__, key)) != int(sut(fresh.__getitem__, key)):
                raise Violation(f"{ctx}: hh[{key!r}] differs between the sketch and its reloaded copy", "getitem-vs-fresh")
        if changed and len(want) >= 2:
            self.nt.add("query_after_change_2plus")
        if not changed:
            self.nt.add("cache_hit_path")

    def flags(self):
        return "query_after_change_2plus" in self.nt, sorted(self.nt | self.w.flags)


def _draw_universe(self, data, cfg):
    return hh_universe(data, cfg)


@rule(i=machines.SK, k=KS, t=TS)
def _query(self, i, k, t):
    self.do({"op": "query", "i": i % self.N, "k": k, "t": t})


@rule(i=machines.SK, k=KS, t1=TS, t2=TS)
def _requery(self, i, k, t1, t2):
    for t in (t1, t1, t2, t1):
        self.do({"op": "query", "i": i % self.N, "k": k, "t": t})


@rule(i=machines.SK, k=KS, t1=TS, t2=TS, t3=TS)
def _threshold_walk(self, i, k, t1, t2, t3):
    for t in (t1, t2, t3):
        self.do({"op": "query", "i": i % self.N, "k": k, "t": t})


def _patched_world_apply():
    """World does not know the 'query' op (it changes no model state): make it a no-op there."""
    from vf.world import World

    if getattr(World, "_c13_patched", False):
        return
    orig = World.apply

    def apply(self, step):
        if step["op"] == "query":
            return set()
        return orig(self, step)

    World.apply = apply
    World._c13_patched = True


def _shard(arg):
    seed, shard, n_examples, steps = arg
    _patched_world_apply()
    rec = common.Recorder()
    holder = {}
    M = machines.make_machine(
        "C13Machine", QueryChecker, rec, holder, CFG=CFG, N=2, VALUES=VALUES, MAXKEY=11, draw_universe=_draw_universe,
        query=_query, requery=_requery, threshold_walk=_threshold_walk,
    )
    common.run_machine(M, common.derive_seed(seed, "C13", shard), n_examples, steps, holder, rec)
    return rec


def run(tier, seed, rec):
    n_ex, steps, shards = (100, 40, 16) if tier == "quick" else (500, 50, 32)
    common.pool_merge(_shard, [(seed, i, n_ex, steps) for i in range(shards)], rec)


def replay(case):
    _patched_world_apply()
    machines.replay_trace(case, QueryChecker)
