"""C13 - query(k, threshold) is the exact, fresh top-k of the sketch's stored counts."""
from collections import Counter

from hypothesis import strategies as st
from hypothesis.stateful import precondition, rule

from vf import common, machines
from vf.common import CEIL, Violation
from vf.hh_common import hh_universe, none_threshold_ok, t_eff, fresh_copy
from vf.world import sut

RULE = (
    "Hypothesis rule-based machine over 2 HeavyHitters sketches (width 1..8, depth 1..3, max_key_len 2..8, NUL-alias key universe), rules "
    "add/update(list|dict)/add_ngram/merge/save_load interleaved with query(i,k,t), k in {0,1,2,3,10^9}, t in {None,0,1,2..10,2^32-1}, and "
    "requery (the same arguments again, then a different threshold, then the first again: cache hit and miss paths) and cross_query (X, then another sketch Y, then X again), phi_change (default-threshold query, the public attribute phi reassigned, default-threshold query again), direct_regen (query, the public generate_candidate_set(t') called directly, the first query again) and saturated_then_huge_threshold (add(key, 2^32-1), then a query with threshold 2^32-1 / 2^32 / 2^40 / inf: a rejected call is not judged, a returned answer must hold counts >= threshold). Directed grid: for phi in {0.01..0.99} (width 64) and default phi = 1/width for width 2..199, every n_added in 1..200 (thorough 600): a key holding exactly floor(phi*n_added) must be in query(). Oracle per query, "
    "evaluated on the answer obtained FIRST, before any helper call touches the sketch: length <= k; keys distinct; counts non-increasing; "
    "each count == hh[key] and >= effective threshold (floor(phi*n_added) for None); counts == first k counts of query(10^9,t); every model "
    "key with hh[key] >= max(threshold,1) is in the unbounded answer; and the answer equals (as count sequence and, for k=inf, as a multiset of pairs) "
    "that of HeavyHitters.load(save(sketch)) queried with the same arguments. Non-trivial: a query that follows a state change or a "
    "different threshold since the previous query on that sketch and returns >= 2 candidates. Distinct = distinct (configuration, step list)."
)
ASSUMPTIONS = [
    "a freshly loaded copy has no cached candidate set other than the one load() builds, so it is the freshness oracle",
    "total multiplicities are kept below 2^32 so that the default threshold floor(phi*n_added) fits the documented 32-bit threshold",
]

CFG = st.builds(
    lambda w, d, mkl, phi, at: {"kind": "hh", "width": w, "depth": d, "max_key_len": mkl, "phi": phi, **({"argtype": at} if at else {})},
    st.sampled_from([1, 2, 2, 3, 4, 8, 70]), st.integers(1, 4), st.sampled_from([2, 3, 4, 8]), st.sampled_from([None, None, 0.05, 0.3]), st.sampled_from([None, None, None, "u8", "i8", "u32", "i64", "u64", "i32"]),
)
VALUES = st.one_of(st.sampled_from([0, 1, 1, 2, 3, 5, 20]), st.integers(0, 12))
KS = st.sampled_from([0, 1, 2, 3, 10**9, 10**9])
TS = st.one_of(st.sampled_from([None, None, 0, 1, CEIL]), st.integers(2, 10))


class QueryChecker:
    def __init__(self, world, case):
        self.w = world
        self.U = list(case.get("U", []))
        self.nt = set()
        self.dirty = [True] * world.n  # state changed since the last query on this sketch
        self.last_t = [object()] * world.n

    def __call__(self, touched, step):
        op = step["op"]
        if op == "bad_query":
            # an out-of-range threshold: whether the call is rejected (numpy 2 raises OverflowError) is not judged,
            # but the caller may catch the exception and carry on, and later answers must still be right; an
            # answer that IS returned must still consist of counts >= threshold (none can reach 2^32 or more)
            try:
                got = self.w.sk[step["i"]].query(step["k"], step["t"])
            except Exception:
                self.nt.add("bad_threshold_rejected")
                return
            for key, c in got:
                if int(c) < step["t"]:
                    raise Violation(f"sketch {step['i']} query({step['k']},{step['t']}): reports ({key!r},{int(c)}) below the threshold", "below-threshold")
            return
        if op == "set_phi":
            # phi is a documented public attribute (saved by save()); assigning it changes the default threshold
            import numpy as np

            self.w.sk[step["i"]].phi = np.float64(step["phi"])
            self.nt.add("phi_reassigned")
            return
        if op == "gen_cs":
            # the public generate_candidate_set(threshold) called directly, as the repository's own tests do
            sk = self.w.sk[step["i"]]
            if step["t"] is not None or none_threshold_ok(sk):
                sut(sk.generate_candidate_set, step["t"])
                self.nt.add("direct_generate_candidate_set")
            return
        if op == "query":
            self.check_query(step["i"], step["k"], step["t"])
        elif op == "save_load":
            for i in touched:
                self.dirty[i] = True
        else:
            for i in touched:
                self.dirty[i] = True

    def check_query(self, i, k, t):
        w = self.w
        sk = w.sk[i]
        if t is None and not none_threshold_ok(sk):
            return
        got = sut(sk.query, k, t)  # the answer under test, taken first
        ans = list(got)
        # the returned list belongs to the caller: scribbling on it must not change later answers
        if isinstance(got, list):
            got.reverse()
            got.append((b"scribble", 0))
            del got[: len(got) // 2]
        changed = self.dirty[i] or self.last_t[i] != t
        self.dirty[i] = False
        self.last_t[i] = t
        te = t_eff(sk, t)
        fresh = fresh_copy(w, sk)
        want = sut(fresh.query, k, t)
        ctx = f"sketch {i} query({k},{t}) [effective threshold {te}]"
        if len(ans) > k:
            raise Violation(f"{ctx}: returned {len(ans)} > k entries", "too-many")
        keys = [a[0] for a in ans]
        counts = [int(a[1]) for a in ans]
        for key in keys:
            if not isinstance(key, bytes) or len(key) > w.cfg["max_key_len"]:
                raise Violation(f"{ctx}: returned a key that cannot be stored in this sketch: {key!r}", "alien-key")
        if len(set(keys)) != len(keys):
            raise Violation(f"{ctx}: duplicate keys {keys}", "duplicate-keys")
        if any(counts[j] < counts[j + 1] for j in range(len(counts) - 1)):
            raise Violation(f"{ctx}: counts not non-increasing {counts}", "not-sorted")
        for key, c in zip(keys, counts):
            direct = int(sut(fresh.__getitem__, key))
            if c != direct:
                raise Violation(f"{ctx}: reports ({key!r},{c}) but hh[key]={direct} (stale or wrong count)", "count-ne-getitem")
            if c < te:
                raise Violation(f"{ctx}: reports ({key!r},{c}) below the threshold", "below-threshold")
        wcounts = [int(a[1]) for a in want]
        if counts != wcounts:
            raise Violation(f"{ctx}: counts {counts} differ from a freshly loaded copy's {wcounts}", "stale-vs-fresh")
        if k >= 10**9 and Counter((a[0], int(a[1])) for a in ans) != Counter((a[0], int(a[1])) for a in want):
            raise Violation(f"{ctx}: answer {ans} differs from a freshly loaded copy's {want}", "stale-vs-fresh")
        unb = sut(fresh.query, 10**9, t)
        ucounts = [int(a[1]) for a in unb]
        if counts != ucounts[: len(counts)] or (len(counts) < min(k, len(ucounts))):
            raise Violation(f"{ctx}: counts {counts} are not the first {k} of the unbounded answer {ucounts}", "not-prefix")
        ukeys = {a[0] for a in unb}
        for key, tr in sorted(w.true[i].items()):
            if tr > 0 and len(key) <= w.cfg["max_key_len"]:
                direct = int(sut(fresh.__getitem__, key))
                if direct >= max(te, 1) and key not in ukeys:
                    raise Violation(f"{ctx}: added key {key!r} with hh[key]={direct} >= threshold is missing from the unbounded answer {unb}", "missing-key")
        # same-object consistency: direct lookups on the queried object agree with the copy
        for key in keys[:3]:
            if int(sut(sk.__getitem__, key)) != int(sut(fresh.__getitem__, key)):
                raise Violation(f"{ctx}: hh[{key!r}] differs between the sketch and its reloaded copy", "getitem-vs-fresh")
        if changed and len(want) >= 2:
            self.nt.add("query_after_change_2plus")
        if not changed:
            self.nt.add("cache_hit_path")

    def flags(self):
        return "query_after_change_2plus" in self.nt, sorted(self.nt | self.w.flags)


def _draw_universe(self, data, cfg):
    return hh_universe(data, cfg)


@rule(i=machines.SK, k=KS, t=TS)
def _query(self, i, k, t):
    self.do({"op": "query", "i": i % self.N, "k": k, "t": t})


@rule(i=machines.SK, k=KS, t1=TS, t2=TS)
def _requery(self, i, k, t1, t2):
    for t in (t1, t1, t2, t1):
        self.do({"op": "query", "i": i % self.N, "k": k, "t": t})


@rule(i=machines.SK, k=KS, t1=TS, t2=TS, t3=TS)
def _threshold_walk(self, i, k, t1, t2, t3):
    for t in (t1, t2, t3):
        self.do({"op": "query", "i": i % self.N, "k": k, "t": t})


@rule(i=machines.SK, k=KS, t=st.sampled_from([-1, 2**32, 2**40, float("inf"), -2.5]), t_ok=TS)
def _bad_then_good_query(self, i, k, t, t_ok):
    i = i % self.N
    self.do({"op": "query", "i": i, "k": k, "t": t_ok})
    self.do({"op": "bad_query", "i": i, "k": k, "t": t})
    self.do({"op": "query", "i": i, "k": k, "t": t_ok})


@rule(i=machines.SK, k=KS, t1=TS, t2=TS)
def _direct_regen(self, i, k, t1, t2):
    """query, then the public generate_candidate_set() with another threshold, then the first query again"""
    i = i % self.N
    self.do({"op": "query", "i": i, "k": k, "t": t1})
    self.do({"op": "gen_cs", "i": i, "t": t2})
    self.do({"op": "query", "i": i, "k": k, "t": t1})


@rule(i=machines.SK, k=KS, phi=st.sampled_from([0.05, 0.2, 0.3, 0.5, 1.0]), how=st.sampled_from(["query", "gen_cs"]))
def _phi_change(self, i, k, phi, how):
    """default-threshold query, phi reassigned, default-threshold query (or candidate generation) again"""
    i = i % self.N
    self.do({"op": "query", "i": i, "k": k, "t": None})
    self.do({"op": "set_phi", "i": i, "phi": phi})
    if how == "gen_cs":
        self.do({"op": "gen_cs", "i": i, "t": None})
    self.do({"op": "query", "i": i, "k": k, "t": None})


@rule(i=machines.SK, ki=machines.IDX, k=KS, t=st.sampled_from([2**32, 2**32 + 1, 2**40, float("inf"), CEIL]))
def _saturated_then_huge_threshold(self, i, ki, k, t):
    """a key saturated at 2^32-1, then a threshold no count can reach"""
    i = i % self.N
    self.do({"op": "add", "i": i, "k": self.key(ki), "v": CEIL})
    self.do({"op": "bad_query" if t > CEIL else "query", "i": i, "k": k, "t": t})


@rule(i=machines.SK, k=KS, t=TS, t2=TS)
def _cross_query(self, i, k, t, t2):
    """query X, then another sketch object Y, then X again with the same arguments (cache-hit path of X)"""
    i = i % self.N
    j = (i + 1) % self.N
    self.do({"op": "query", "i": i, "k": k, "t": t})
    self.do({"op": "query", "i": j, "k": k, "t": t2})
    self.do({"op": "query", "i": i, "k": k, "t": t})


def _patched_world_apply():
    """World does not know the 'query' op (it changes no model state): make it a no-op there."""
    from vf.world import World

    if getattr(World, "_c13_patched", False):
        return
    orig = World.apply

    def apply(self, step):
        if step["op"] in ("query", "bad_query", "gen_cs", "set_phi"):
            return set()
        return orig(self, step)

    World.apply = apply
    World._c13_patched = True


def _shard(arg):
    seed, shard, n_examples, steps = arg
    _patched_world_apply()
    rec = common.Recorder()
    holder = {}
    M = machines.make_machine(
        "C13Machine", QueryChecker, rec, holder, CFG=CFG, N=2, VALUES=VALUES, MAXKEY=11, draw_universe=_draw_universe,
        query=_query, requery=_requery, threshold_walk=_threshold_walk, cross_query=_cross_query, bad_then_good_query=_bad_then_good_query, direct_regen=_direct_regen, saturated_then_huge_threshold=_saturated_then_huge_threshold, phi_change=_phi_change,
    )
    common.run_machine(M, common.derive_seed(seed, "C13", shard), n_examples, steps, holder, rec, retry=lambda c_: machines.replay_trace(c_, QueryChecker))
    return rec


def _threshold_grid(arg):
    """Directed: the default threshold is floor(phi*n_added) for EVERY (phi, n): for a grid of phi values
    (explicit, and default 1/width) and every n in 1..N a key holding exactly that count must be reported."""
    import math

    from vf.world import CELLMAP
    from sketchnu.heavyhitters import HeavyHitters

    lo, hi, N = arg
    rec = common.Recorder()
    cfgs = [("explicit", round(0.01 * t, 2)) for t in range(lo, hi)] + [("default", w) for w in range(max(lo, 2), hi)]
    for mode, val in cfgs:
        width = 64 if mode == "explicit" else val
        phi = val if mode == "explicit" else None
        if mode == "explicit" and not (0.0 < phi < 1.0):
            continue
        cfg = {"kind": "hh", "width": width, "depth": 1, "max_key_len": 4, "phi": phi}
        # two keys that own different cells
        a = b"A"
        b = next(k for k in (b"B", b"C", b"D", b"E", b"F", b"G", b"H", b"I") if width == 1 or CELLMAP.cells(cfg, k) != CELLMAP.cells(cfg, a))
        p = float(phi) if phi is not None else float(1.0 / float(width))
        count = nt = 0
        for n in range(1, N + 1):
            te = int(math.floor(p * float(n)))
            if te < 1 or n - te < 0 or (width == 1 and n - te > 0):
                continue
            sk = HeavyHitters(width, 1, 4, phi)
            sk.add(a, te)
            if n - te:
                sk.add(b, n - te)
            got = sut(sk.query, 10**9)
            count += 1
            prod = p * float(n)
            near = prod - math.floor(prod) > 1 - 1e-6 or prod - math.floor(prod) < 1e-6
            nt += near
            keys = {k for k, _ in got}
            case = {"grid": True, "mode": mode, "value": val, "n": n, "width": width}
            if a not in keys:
                rec.violation(case, f"HeavyHitters(width={width}, phi={phi}) with n_added={n}: key with count {te} == floor(phi*n_added) (phi*n = {prod!r}) is missing from query(): {got}", "default-threshold")
                rec.bulk(count, nt)
                return rec
            if any(int(c) < te for _, c in got):
                rec.violation(case, f"HeavyHitters(width={width}, phi={phi}) n_added={n}: query() returned a count below the default threshold {te}: {got}", "below-threshold")
                rec.bulk(count, nt)
                return rec
        rec.bulk(count, nt, {"grid": True, "mode": mode, "value": val, "n_max": N}, {"threshold_grid_cases": count})
    return rec


def run(tier, seed, rec):
    N = 200 if tier == "quick" else 600
    common.pool_merge(_threshold_grid, [(lo, min(lo + 13, 100), N) for lo in range(1, 100, 13)] + [(lo, lo + 25, N) for lo in range(100, 200, 25)], rec)
    n_ex, steps, shards = (100, 40, 16) if tier == "quick" else (500, 50, 32)
    common.pool_merge(_shard, [(seed, i, n_ex, steps) for i in range(shards)], rec)


def replay(case):
    if case.get("grid"):
        v = case["value"]
        lo = int(round(v * 100)) if case["mode"] == "explicit" else v
        r = _threshold_grid((lo, lo + 1, max(case.get("n", 200), 200)))
        if r.violations:
            raise Violation(r.violations[0]["msg"], r.violations[0]["signature"])
        return
    _patched_world_apply()
    machines.replay_trace(case, QueryChecker)
