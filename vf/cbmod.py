"""Module-level callbacks for parallel_add (must be importable in spawned children, so this
module imports nothing heavy).  An item is a dict:
   keys : list[bytes]      what to add
   mult : list[int] | None multiplicities (dict update) or None (list update)
   ngram: int | None       use update_ngram(keys, ngram)
   ret  : int              number of records the callback reports
   mode : 'ok' | 'raise_before' | 'raise_after' | 'die' | 'exit'
   idx  : int              position in the original item list
"""
import os


class WorkerDies(BaseException):
    """not an Exception: the worker loop does not catch it, the process dies"""


class WorkerKilled9(BaseException):
    """the worker is killed by signal 9 from outside (OOM killer, kill -9): the in-process contexts end the 'process'
    with exit status -9 when this propagates; really spawned workers send themselves SIGKILL instead"""


class TwoArgError(Exception):
    """an exception whose constructor takes two arguments but passes one message to Exception: it pickles, but the
    pickle cannot be loaded again (a common shape of hand-written exception classes)"""

    def __init__(self, what, where):
        super().__init__(f"{what} at {where}")
        self.what = what
        self.where = where


class Anything:
    """an item that compares equal to everything (like unittest.mock.ANY): items are opaque to parallel_add"""

    def __init__(self, tag):
        self.tag = tag

    def __eq__(self, other):
        return True

    def __ne__(self, other):
        return False

    __hash__ = None


def realize(item):
    """cases describe unusual items symbolically ({'special': 'nparr' | 'any', ...}); this builds the object handed to parallel_add"""
    if isinstance(item, dict) and item.get("special") == "nparr":
        import numpy as np

        return np.array(item["vals"], dtype=np.uint32)
    if isinstance(item, dict) and item.get("special") == "any":
        return Anything(item["tag"])
    return item


def normalize(item):
    """Items may be any picklable objects; non-dict items get a fixed meaning:
    int i -> one record with key b'int:<i>'; str -> one record whose key is the encoded string;
    bytes -> one record with that key; list/tuple -> one record adding each element (a list update);
    numpy array -> one record adding b'np:<x>' per element; Anything(tag) -> one record with key b'any:<tag>'."""
    if type(item).__name__ == "ndarray":
        item = {"special": "nparr", "vals": [int(x) for x in item.ravel()]}
    if isinstance(item, Anything):
        item = {"special": "any", "tag": item.tag}
    if isinstance(item, dict) and "special" in item:
        if item["special"] == "nparr":
            return {"keys": [b"np:%d" % v for v in item["vals"]], "mult": None, "ngram": None, "ret": 1, "mode": "ok", "idx": "np" + repr(item["vals"])}
        return {"keys": [b"any:%d" % item["tag"]], "mult": None, "ngram": None, "ret": 1, "mode": "ok", "idx": "any%d" % item["tag"]}
    if isinstance(item, dict):
        return item
    if isinstance(item, bool) or isinstance(item, int):
        return {"keys": [b"int:%d" % int(item)], "mult": None, "ngram": None, "ret": 1, "mode": "ok", "idx": repr(item)}
    if isinstance(item, str):
        return {"keys": [item.encode()], "mult": None, "ngram": None, "ret": 1, "mode": "ok", "idx": repr(item)}
    if isinstance(item, (bytes, bytearray)):
        return {"keys": [bytes(item)], "mult": None, "ngram": None, "ret": 1, "mode": "ok", "idx": repr(item)}
    if isinstance(item, (list, tuple)):
        return {"keys": list(item), "mult": None, "ngram": None, "ret": 1, "mode": "ok", "idx": repr(item)}
    raise TypeError(f"unsupported item {item!r}")


def apply_item(item, sketches):
    item = normalize(item)
    for s in sketches:
        if item.get("ngram"):
            s.update_ngram(list(item["keys"]), item["ngram"])
        elif item.get("mult") is not None:
            s.update({k: v for k, v in zip(item["keys"], item["mult"])})
        else:
            s.update(list(item["keys"]))


# set by a check that wants to look at the worker's own sketch objects after each item (C06: draw batches of log sketches)
observe_hook = None

# set by the in-process contexts: called with every item the callback is invoked for (the exactly-once oracle)
deliver_hook = None

# set by the cooperative-thread context: a callback takes time, so every call is a point where other processes may run
yield_hook = None


def _noop():
    pass


def process_item(item, *sketches, side=None, **kwargs):
    item = normalize(item)
    if deliver_hook is not None:
        deliver_hook(item)
    if item.get("child") and os.environ.get("VF_REAL_SPAWN") == "1":
        # a callback may use processes of its own (a pool, a subprocess): only done in really spawned workers
        import multiprocessing

        p = multiprocessing.get_context("fork").Process(target=_noop)
        p.start()
        p.join()
    if yield_hook is not None:
        yield_hook()
    if side:
        with open(side, "a") as f:
            f.write(f"{os.getpid()} {item['idx']}\n")
    mode = item.get("mode", "ok")
    if mode == "raise_before":
        # exceptions of several shapes: with a message, without arguments, with a non-string argument, an assert
        v = item["idx"] % 6 if isinstance(item["idx"], int) else 0
        if v == 5:
            raise TwoArgError("unreadable record", item["idx"])
        if v == 0:
            raise RuntimeError(f"callback refuses item {item['idx']}")
        if v == 1:
            raise KeyError
        if v == 2:
            assert False
        if v == 3:
            raise ValueError()
        raise OSError(5, "Input/output error")
    if mode == "die":
        raise WorkerDies(f"worker dies on item {item['idx']}")
    if mode == "kill9":
        if os.environ.get("VF_REAL_SPAWN") == "1":
            import signal

            os.kill(os.getpid(), signal.SIGKILL)
        raise WorkerKilled9(f"worker killed by signal 9 on item {item['idx']}")
    if mode == "exit":
        os._exit(3)
    apply_item(item, sketches)
    if observe_hook is not None:
        observe_hook(sketches)
    if mode == "raise_after":
        # also exceptions of the OSError family (the kind a library might be tempted to retry) and one that cannot be unpickled
        v = item["idx"] % 5 if isinstance(item["idx"], int) else 0
        if v == 1:
            raise IndexError  # no arguments
        if v == 2:
            raise FileNotFoundError(2, "No such file or directory", f"record-{item['idx']}.txt")
        if v == 3:
            raise TimeoutError("timed out")
        if v == 4:
            raise TwoArgError("unreadable record", item["idx"])
        raise ValueError(f"callback fails after updating the sketches with item {item['idx']}")
    rt = item.get("ret_type")
    if rt:
        import numpy as np

        return {"i64": np.int64, "u32": np.uint32, "u8": np.uint8, "i32": np.int32, "u64": np.uint64}[rt](item["ret"])
    return item["ret"]


def process_item_opts(item, *sketches, **opts):
    """same as process_item_kw, but the options arrive through a **opts catch-all"""
    return process_item(item, *sketches, side=opts.get("side")) + opts.get("bonus", 0)


def process_item_kw(item, *sketches, bonus=0, side=None):
    """same, but the return value depends on a keyword argument passed through parallel_add"""
    return process_item(item, *sketches, side=side) + bonus
