"""C04 - heavy hitters always report a key that dominates one of its cells."""
import itertools

import numpy as np
from hypothesis import strategies as st

from vf import common, machines
from vf.common import CEIL
from vf.hh_common import CFG, Dominance, hh_universe

from sketchnu.heavyhitters import HeavyHitters

RULE = (
    "Hypothesis rule-based machine over 4 HeavyHitters sketches (shapes and NUL-alias key universe as in C03), rules add(i,k,v) with mostly "
    "small v (occasionally near 2^32), update(list|dict), add_ngram, update_ngram, merge(i,j) in any order. After every step, for each touched "
    "sketch whose total multiplicity ever received is < 2^32-1 (so no counter can have saturated) and every key k with B(k)=max_r(2f-W_r)>0 "
    "(f = true count, W_r = total multiplicity of the keys mapped to k's cell in row r, cell map from a probe sketch): hh[k] >= B(k); for t in "
    "{0,1,B(k),None}: if B(k) >= max(effective threshold,1) then k is in query(10^9,t) with count >= B(k); if 2f > N then query(1,1)[0] is k "
    "with count >= 2f-N. Plus exhaustive enumeration for a width-1 depth-1 sketch: every sequence of <= L weighted items (3 keys incl. a "
    "NUL-alias pair x weights 1..3), every prefix/suffix split into two sketches merged both ways. Non-trivial: some key has B>0 while another "
    "positive key shares its best cell. Distinct = distinct (configuration, step list)."
)
ASSUMPTIONS = [
    "dominance bound derived from the Boyer-Moore potential argument (DESIGN 7/C04), asserted only while the total multiplicity is below 2^32-1",
    "N = total multiplicity added according to the model",
]

VALUES = st.one_of(*([st.sampled_from([0, 1, 1, 1, 2, 3, 5, 9, 100]), st.integers(0, 12), st.integers(0, 12)] * 6 + [st.sampled_from([CEIL - 1, 2**31, 1000, 10**6])]))


def _draw_universe(self, data, cfg):
    return hh_universe(data, cfg)


def _shard(arg):
    seed, shard, n_examples, steps = arg
    rec = common.Recorder()
    holder = {}
    M = machines.make_machine("C04Machine", Dominance, rec, holder, SELF_MERGE=True, CFG=CFG, N=4, VALUES=VALUES, MAXKEY=19, SAVELOAD=False, draw_universe=_draw_universe)
    common.run_machine(M, common.derive_seed(seed, "C04", shard), n_examples, steps, holder, rec, retry=lambda c_: machines.replay_trace(c_, Dominance))
    return rec


KEYS = [b"\0", b"\0\0", b"b"]


def _enum(arg):
    L, first = arg
    rec = common.Recorder()
    syms = [(k, w) for k in range(3) for w in (1, 2, 3)]
    a, b = HeavyHitters(1, 1, 2), HeavyHitters(1, 1, 2)
    count = nt = 0
    sample = None

    for n in range(1, L + 1):
        for seq in itertools.product(range(9), repeat=n):
            if seq[0] != first:
                continue
            f = [0, 0, 0]
            for s in seq:
                f[syms[s][0]] += syms[s][1]
            N = sum(f)
            maj = [k for k in range(3) if 2 * f[k] > N]
            for split in range(n + 1):
                for direction in (0, 1):
                    if split == n and direction:
                        continue
                    # fresh objects: resetting tables in place would leave query()'s cached
                    # candidate set behind, which is harness-made staleness, not the SUT's
                    a, b = HeavyHitters(1, 1, 2), HeavyHitters(1, 1, 2)
                    for pos, s in enumerate(seq):
                        (a if pos < split else b).add(KEYS[syms[s][0]], syms[s][1])
                    if direction:
                        a.merge(b)
                        res = a
                    else:
                        b.merge(a)
                        res = b
                    count += 1
                    bad = None
                    stored_count = int(res.lhh_count[0, 0])
                    if maj:
                        k = maj[0]
                        nt += 1
                        v = int(res[KEYS[k]])
                        top = res.query(1, 1)
                        if v < 2 * f[k] - N:
                            bad = f"hh[{KEYS[k]!r}]={v} < 2f-N={2*f[k]-N}"
                        elif not top or top[0][0] != KEYS[k] or int(top[0][1]) < 2 * f[k] - N:
                            bad = f"majority key {KEYS[k]!r} not first in query(1,1): {top}"
                    for k in range(3):
                        if int(res[KEYS[k]]) > f[k]:
                            bad = f"hh[{KEYS[k]!r}]={int(res[KEYS[k]])} exceeds true count {f[k]}"
                    if bad:
                        steps = [{"op": "add", "i": 0 if pos < split else 1, "k": KEYS[syms[s][0]], "v": syms[s][1]} for pos, s in enumerate(seq)]
                        steps.append({"op": "merge", "i": 0 if direction else 1, "j": 1 if direction else 0})
                        case = {"cfg": {"kind": "hh", "width": 1, "depth": 1, "max_key_len": 2, "phi": None}, "n": 2, "U": KEYS, "steps": steps}
                        rec.violation(case, "width-1 enumeration: " + bad, "dominance-enum")
                        rec.bulk(count, nt)
                        return rec
                    if sample is None and maj and split not in (0, n):
                        sample = {"items": [[KEYS[syms[s][0]], syms[s][1]] for s in seq], "split": split, "merge_into_first": bool(direction)}
    rec.bulk(count, nt, sample, {"enum_runs": count, "enum_majority_runs": nt})
    return rec


def run(tier, seed, rec):
    quick = tier == "quick"
    n_ex, steps, shards = (100, 40, 16) if quick else (500, 50, 32)
    common.pool_merge(_shard, [(seed, i, n_ex, steps) for i in range(shards)], rec)
    L = 4 if quick else 6
    common.pool_merge(_enum, [(L, first) for first in range(9)], rec)
    if not rec.violations:
        rec.exhaustive.append(f"width 1, depth 1: every sequence of <= {L} items over 3 keys x weights 1..3, every prefix/suffix split, both merge directions")


def replay(case):
    from vf.hh_common import NoOverCount

    def both(world, c):
        d, n = Dominance(world, c), NoOverCount(world, c)

        def check(touched, step):
            d(touched, step)
            if c["cfg"]["width"] == 1 and c["cfg"]["depth"] == 1 and c["cfg"]["max_key_len"] == 2:
                n(touched, step)  # the enumeration also checks the over-count side

        return check

    machines.replay_trace(case, both)
