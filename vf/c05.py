"""C05 - an add raises the key's estimate by its multiplicity and nothing else past it."""
import numpy as np
from hypothesis import strategies as st

from vf import common, machines
from vf.cms_common import ANY_CMS_CFG, DRAWS, ONE_MINUS, UMAX, decode, min_counter
from vf.common import CEIL, Violation
from vf.world import CELLMAP, plant, sut, make_sketch

RULE = (
    "Hypothesis rule-based machine over 2 count-min sketches of one type (linear / log16 / log8; width from {1,2,3,4,8,16}, depth 1..4; log "
    "configurations max_count in {300,1000,5000,70000,10^6,2^32-1} x num_reserved in {0,1,3,15,1023}); states are produced by adds, "
    "list/dict/ngram updates, merges and (linear) runs of 22-32 doubling merges that push n_added beyond 2^53; every add(k,v) step (v up to 2^40 for linear, <= 70000 for log plus 2^63-1 .. 2^64-1 on log sketches with max_count <= 10^6, n_added compared modulo 2^64; log draws planted by the harness from "
    "arbitrary floats in [0,1) incl. 0, 2^-1074, 1-2^-53) is observed with before/after snapshots of the table, n_added() and query(u) for every "
    "key u of the universe. Oracle: linear query(k)' == min(query(k)+v, 2^32-1); log: smallest counter c <= c' <= min(c+v, umax), and c'==c+v, "
    "query(k)'==query(k)+v whenever c+v <= num_reserved+1; no estimate decreases; query(u)' <= max(query(u), query(k)') for u != k; at most one "
    "cell per row differs, it is k's cell and holds k's new minimum; n_added grows by exactly v unless cut by the ceiling. Plus exhaustive DFS of all "
    "histories of length <= 3 over {add(2 sketches x 3 keys x v in {1,3} x draw in {always,never})} + 2 merges for a log8 and a linear shape. "
    "Non-trivial: k shares >= 1 cell with another positive key and its cells are not all equal before the add (conservative and plain updating "
    "differ). Distinct = distinct (configuration, step list)."
)
ASSUMPTIONS = [
    "log draws are planted through the documented rand_nums/rand_ptr attributes (arbitrary draws, so the bounds must hold for every draw)",
    "the counter a key owns per row is read from a probe sketch",
]


class AddChecker:
    def __init__(self, world, case):
        self.w = world
        self.U = list(case.get("U", []))
        self.nt = set()
        self.pre = None

    def before(self, step):
        self.pre = None
        if step["op"] not in ("add", "add_default"):
            return
        w = self.w
        i = step["i"]
        sk = w.sk[i]
        keys = sorted(set(self.U) | {step["k"]})
        self.pre = {
            "cms": np.array(sk.cms, copy=True),
            "n_added": int(sk.n_added()),
            "n_records": int(sk.n_records()),
            "q": {u: sut(sk.query, u) for u in keys},
            "c": min_counter(sk, w.cfg, step["k"]),
            "keys": keys,
        }
        # sut.query touched nothing but the scratch buffer; re-plant the draws for log kinds (world.apply does that)

    def __call__(self, touched, step):
        if self.pre is None:
            return
        w = self.w
        cfg = w.cfg
        kind = cfg["kind"]
        i = step["i"]
        sk = w.sk[i]
        k = step["k"]
        v = step.get("v", 1)
        pre = self.pre
        umax = UMAX[kind]
        qk0 = pre["q"][k]
        qk1 = sut(sk.query, k)
        c0 = pre["c"]
        c1 = min_counter(sk, cfg, k)
        ctx = f"{kind} sketch {i} add({k!r},{v})"
        if kind == "linear":
            want = min(int(qk0) + v, CEIL)
            if int(qk1) != want:
                raise Violation(f"{ctx}: estimate {int(qk0)} -> {int(qk1)}, expected {want}", "linear-add-exact")
            cut = int(qk0) + v > CEIL
        else:
            nr = int(sk.num_reserved)
            if not (c0 <= c1 <= min(c0 + v, umax)):
                raise Violation(f"{ctx}: smallest counter {c0} -> {c1}, outside [{c0}, {min(c0 + v, umax)}]", "log-add-range")
            if c0 + v <= nr + 1:
                if c1 != c0 + v:
                    raise Violation(f"{ctx}: counter {c0} -> {c1} but {c0}+{v} <= num_reserved+1={nr+1} must be exact", "log-reserved-exact")
                if float(qk1) != float(qk0) + v:
                    raise Violation(f"{ctx}: estimate {qk0} -> {qk1}, expected exactly +{v} in the reserved range", "log-reserved-exact")
            cut = c1 >= umax
        # other keys
        for u in pre["keys"]:
            q0, q1 = pre["q"][u], sut(sk.query, u)
            if q1 < q0:
                raise Violation(f"{ctx}: estimate of {u!r} decreased {q0} -> {q1}", "estimate-decreased")
            if u != k and q1 > max(q0, qk1):
                raise Violation(f"{ctx}: estimate of other key {u!r} went {q0} -> {q1}, above max(old, new estimate of k = {qk1})", "other-key-overshoot")
        # table diff
        post = np.array(sk.cms, copy=True)
        cells = CELLMAP.cells(cfg, k)
        diff = np.argwhere(post != pre["cms"])
        new_counter = int(qk1) if kind == "linear" else c1
        for r, c in diff:
            if cells[int(r)] != int(c):
                raise Violation(f"{ctx}: counter [{int(r)},{int(c)}] changed but {k!r} owns column {cells[int(r)]} in that row", "foreign-cell-changed")
            if int(post[r, c]) != new_counter:
                raise Violation(f"{ctx}: counter [{int(r)},{int(c)}] set to {int(post[r, c])}, k's new minimum is {new_counter}", "cell-not-new-min")
        if len(diff) > cfg["depth"]:
            raise Violation(f"{ctx}: more than one counter per row changed", "foreign-cell-changed")
        # bookkeeping counters
        # n_added is a 64-bit unsigned counter: growth is compared modulo 2^64 (a total beyond 2^64-1 cannot be represented)
        dn = (int(sk.n_added()) - pre["n_added"]) % 2**64
        veff = (min(v, CEIL) if kind == "linear" else v) % 2**64
        if not cut and dn != veff:
            raise Violation(f"{ctx}: n_added grew by {dn}, expected {veff}", "n_added")
        # non-triviality: conservative updating differs from plain updating
        own = [int(pre["cms"][r, c]) for r, c in enumerate(cells)]
        if len(set(own)) > 1 and v > 0:
            self.nt.add("unequal_cells_before_add")
        if cut:
            self.nt.add("cut_by_ceiling")
        if kind != "linear" and c0 >= int(sk.num_reserved):
            self.nt.add("probabilistic_range")
        self.nt.add(f"kind={kind}")

    def flags(self):
        return "unequal_cells_before_add" in self.nt, sorted(self.nt | self.w.flags)


def _values(kind_hint=None):
    return st.one_of(st.sampled_from([0, 1, 1, 2, 3, 5, 16, 17, 100]), st.integers(0, 40), st.sampled_from([255, 256, 257, 1000, 2000, 65535, 65536, 70000]))


class _Values:
    """multiplicities depend on the sketch type: log kernels loop v times"""


def _shard(arg):
    seed, shard, n_examples, steps = arg
    rec = common.Recorder()
    holder = {}
    from hypothesis.stateful import rule

    @rule(i=machines.SK, ki=machines.IDX, v=st.sampled_from([CEIL - 2, CEIL - 1, CEIL, CEIL + 1, 2**31, 2**33, 2**40, 2**63, 2**64 - 1, 2**64, 10**30]))
    def add_big_linear(self, i, ki, v):
        if self.world.kind == "linear":
            self.do({"op": "add", "i": i % self.N, "k": self.key(ki), "v": v})

    @rule(i=machines.SK, ki=machines.IDX, t=st.sampled_from([11, 12, 16]))
    def pump_n_added(self, i, ki, t):
        """reach n_added >= 2^53 the legitimate way: one big add, then ~2t doubling merges between the two sketches"""
        if self.world.kind != "linear":
            return
        i = i % self.N
        j = (i + 1) % self.N
        self.do({"op": "add", "i": i, "k": self.key(ki), "v": CEIL})
        for _ in range(t):
            self.do({"op": "merge", "i": i, "j": j})
            self.do({"op": "merge", "i": j, "j": i})

    M = machines.make_machine(
        "C05Machine", AddChecker, rec, holder, SELF_MERGE=True, CFG=ANY_CMS_CFG, N=2, VALUES=_values(), DRAWS=DRAWS, SAVELOAD=False, MAXKEY=24,
        add_big_linear=add_big_linear, pump_n_added=pump_n_added, add_huge_log=machines.huge_log_rule(),
    )
    common.run_machine(M, common.derive_seed(seed, "C05", shard), n_examples, steps, holder, rec, retry=lambda c_: machines.replay_trace(c_, AddChecker))
    return rec


# ------------------------------------------------------------------ exhaustive small histories


def _enum(arg):
    cfg, L, first = arg
    from vf.world import World

    rec = common.Recorder()
    keys = [b"", b"\0", b"a", b"b", b"\xff"][:3]
    log = cfg["kind"] != "linear"
    draws = [[0.0], [ONE_MINUS]] if log else [None]
    ops = [("add", s, k, v, d) for s in (0, 1) for k in range(3) for v in (1, 3) for d in range(len(draws))] + [("merge", 0, 1), ("merge", 1, 0)]
    count = [0, 0]
    sample = []

    def step_of(op):
        if op[0] == "add":
            st_ = {"op": "add", "i": op[1], "k": keys[op[2]], "v": op[3]}
            if log:
                st_["draws"] = draws[op[4]]
            return st_
        return {"op": "merge", "i": op[1], "j": op[2]}

    def run_path(path):
        w = World(cfg, 2)
        try:
            chk = AddChecker(w, {"U": keys})
            for op in path:
                st_ = step_of(op)
                chk.before(st_)
                t = w.apply(st_)
                chk(t, st_)
            return chk
        finally:
            w.close()

    # replaying each path from scratch keeps this simple; the space is small (<= 18k paths)
    import itertools

    for n in range(1, L + 1):
        for path in itertools.product(range(len(ops)), repeat=n):
            if path[0] != first:
                continue
            p = [ops[x] for x in path]
            if p[-1][0] != "add":
                continue
            count[0] += 1
            try:
                chk = run_path(p)
            except Violation as v:
                rec.violation({"cfg": cfg, "n": 2, "U": keys, "steps": [step_of(o) for o in p]}, "enumerated history: " + v.msg, v.signature)
                rec.bulk(count[0], count[1])
                return rec
            if "unequal_cells_before_add" in chk.nt:
                count[1] += 1
                if not sample:
                    sample.append({"cfg": cfg, "steps": [step_of(o) for o in p]})
    rec.bulk(count[0], count[1], sample[0] if sample else None, {"enumerated_histories": count[0]})
    return rec


ENUM_CFGS = [
    {"kind": "log8", "width": 2, "depth": 2, "max_count": 300, "num_reserved": 1},
    {"kind": "linear", "width": 2, "depth": 2},
]


def run(tier, seed, rec):
    quick = tier == "quick"
    n_ex, steps, shards = (120, 40, 16) if quick else (600, 50, 32)
    common.pool_merge(_shard, [(seed, i, n_ex, steps) for i in range(shards)], rec)
    L = 2 if quick else 3
    jobs = []
    for cfg in ENUM_CFGS:
        nops = (2 * 3 * 2 * (2 if cfg["kind"] != "linear" else 1)) + 2
        jobs += [(cfg, L, f) for f in range(nops)]
    common.pool_merge(_enum, jobs, rec)
    if not rec.violations:
        rec.exhaustive.append(f"all histories of length <= {L} ending in an add, over add(2 sketches x 3 keys x v in {{1,3}} x draw in {{always,never}}) + 2 merges, for log8(2x2,max 300,reserved 1) and linear(2x2)")


def replay(case):
    machines.replay_trace(case, AddChecker)
