"""Heavy-hitter oracles shared by C03, C04 and C13."""
import math
import os
from collections import defaultdict

import numpy as np
from hypothesis import strategies as st

from vf.common import CEIL, Violation
from vf.world import CELLMAP, sut

from sketchnu.heavyhitters import HeavyHitters

WIDTHS = [1, 1, 1, 2, 2, 3, 3, 4, 8, 16]

CFG = st.builds(
    lambda w, d, mkl, phi, at: {"kind": "hh", "width": w, "depth": d, "max_key_len": mkl, "phi": phi, **({"argtype": at} if at else {})},
    st.sampled_from(WIDTHS + [70, 100]),
    st.integers(1, 4),
    st.sampled_from([1, 2, 2, 3, 4, 4, 8, 16]),
    st.sampled_from([None, None, None, 0.01, 0.3, 0.5]),
    st.sampled_from([None, None, None, "u8", "i8", "u32", "i64", "u64", "i32"]),
)

ALPHA = [0x00, 0x00, 0x61, 0x62, 0xFF]


def hh_universe(data, cfg):
    """Keys over a 4-symbol alphabet {00,'a','b',ff}, lengths 0..max_key_len+3: NUL aliases,
    all-NUL keys and over-long keys sharing a max_key_len prefix occur in every case."""
    mkl = cfg["max_key_len"]
    raw = data.draw(
        st.lists(st.lists(st.sampled_from(ALPHA), min_size=0, max_size=min(mkl + 3, 8)).map(bytes), min_size=3, max_size=7),
        label="universe",
    )
    out = []
    for k in raw + [b"", b"\0", b"a"]:
        for v in (k, k + b"\0"):
            if v not in out:
                out.append(v)
    base = out[0] if out[0] else b"a"
    long1 = (base * (mkl + 2))[: mkl] + b"a"
    long2 = (base * (mkl + 2))[: mkl] + b"b\0"
    for v in (long1, long2, b"\0" * min(mkl, 4)):
        if v not in out:
            out.append(v)
    # equal-length keys that agree on a long prefix (8 bytes, or all but the last byte): comparisons that
    # look at a prefix or at whole machine words only would confuse them
    pre = (base * 8)[:8]
    fam = []
    if mkl >= 9:
        fam += [pre + b"a", pre + b"b", pre + b"\0", (pre + b"a" * 8)[:mkl], (pre + b"b" * 8)[:mkl], (pre + b"a" * 7 + b"b")[:mkl] if mkl >= 16 else pre + b"ab"]
    if mkl >= 2:
        stem = (base * mkl)[: mkl - 1]
        fam += [stem + b"a", stem + b"b"]
    out = fam[:6] + out
    seen = []
    for v in out:
        if v not in seen:
            seen.append(v)
    return seen[:28]


def t_eff(sk, t):
    if t is None:
        return int(math.floor(float(sk.phi) * float(int(sk.n_added()))))
    return int(t)


def none_threshold_ok(sk):
    return float(sk.phi) * float(int(sk.n_added())) < 2**32 - 1


def cell_weights(world, i):
    """W[r][c] = total true multiplicity of the keys mapped to cell (r, c); npos = number of
    distinct positive keys in it."""
    cfg = world.cfg
    W = [defaultdict(int) for _ in range(cfg["depth"])]
    npos = [defaultdict(int) for _ in range(cfg["depth"])]
    cells = {}
    for k, t in world.true[i].items():
        cells[k] = CELLMAP.cells(cfg, k)
        if t > 0:
            for r, c in enumerate(cells[k]):
                W[r][c] += t
                npos[r][c] += 1
    return W, npos, cells


def lookup(sk, u, mkl):
    """hh[u]; over-long keys may be rejected with an exception (out of the documented domain)."""
    if len(u) <= mkl:
        return int(sut(sk.__getitem__, u)), False
    if hasattr(sk, "shm"):
        # an exception raised inside a jitted kernel leaks the array references (numba does not
        # unwind), after which the segment cannot be closed: do not provoke that on shared memory
        return None, True
    try:
        return int(sk[u]), False
    except Exception:
        return None, True


class NoOverCount:
    """C03: no reported count exceeds the key's true multiplicity; unseen keys are never reported."""

    def __init__(self, world, case):
        self.w = world
        self.U = list(case.get("U", []))
        self.nt = set()

    def check_sketch(self, i):
        w = self.w
        sk = w.sk[i]
        true = w.true[i]
        mkl = w.cfg["max_key_len"]
        thresholds = [0, 1] + ([None] if none_threshold_ok(sk) else [])
        for t in thresholds:
            res = sut(sk.query, 10**9, t)
            for key, count in res:
                count = int(count)
                if not isinstance(key, bytes):
                    raise Violation(f"query returned a non-bytes key {key!r}", "query-type")
                if count > true.get(key, 0):
                    sig = "never-added-reported" if true.get(key, 0) == 0 else "over-count"
                    raise Violation(f"sketch {i}: query(inf,{t}) reports ({key!r},{count}) but its true count is {true.get(key, 0)}", sig)
        for u in sorted(set(self.U) | set(true)):
            v, rejected = lookup(sk, u, mkl)
            if rejected:
                self.nt.add("overlong_lookup_rejected")
                continue
            tu = true.get(u[:mkl], 0)
            if v > tu:
                raise Violation(f"sketch {i}: hh[{u!r}]={v} exceeds its true count {tu}", "over-count-getitem")
        # non-triviality bookkeeping
        pos = [k for k, t in true.items() if t > 0]
        if any(k and set(k) == {0} for k in pos):
            self.nt.add("all_nul_key_added")
        if any((k + b"\0") in true and true[k + b"\0"] > 0 for k in pos):
            self.nt.add("nul_alias_pair_added")
        if len(pos) >= 2:
            W, npos, cells = cell_weights(w, i)
            if any(all(npos[r][cells[k][r]] >= 2 for r in range(w.cfg["depth"])) for k in pos):
                self.nt.add("all_rows_shared")

    def __call__(self, touched, step):
        for i in range(self.w.n):  # all sketches: state must not be shared between sketch objects
            self.check_sketch(i)

    def flags(self):
        nt = bool(self.nt & {"all_nul_key_added", "nul_alias_pair_added", "all_rows_shared"})
        return nt, sorted(self.nt | self.w.flags)


class Dominance:
    """C04: a key that dominates one of its cells is always reported (absent saturation)."""

    def __init__(self, world, case):
        self.w = world
        self.U = list(case.get("U", []))
        self.nt = set()

    def check_sketch(self, i):
        w = self.w
        if w.total[i] >= CEIL:
            self.nt.add("saturation_possible_skipped")
            return
        sk = w.sk[i]
        true = w.true[i]
        depth = w.cfg["depth"]
        N = w.total[i]
        W, npos, cells = cell_weights(w, i)
        for k in sorted(true):
            f = true[k]
            if f <= 0:
                continue
            B = max(2 * f - W[r][cells[k][r]] for r in range(depth))
            if B <= 0:
                continue
            best_r = max(range(depth), key=lambda r: 2 * f - W[r][cells[k][r]])
            if npos[best_r][cells[k][best_r]] >= 2:
                self.nt.add("dominates_shared_cell")
            v = int(sut(sk.__getitem__, k))
            if v < B:
                raise Violation(f"sketch {i}: hh[{k!r}]={v} below the dominance bound {B} (f={f})", "dominance-getitem")
            for t in [0, 1, B] + ([None] if none_threshold_ok(sk) else []):
                te = t_eff(sk, t)
                if B >= max(te, 1):
                    res = dict(sut(sk.query, 10**9, t))
                    if k not in res:
                        raise Violation(f"sketch {i}: {k!r} (f={f}, bound {B}) missing from query(inf,{t}) (effective threshold {te}); got {sorted(res.items())[:6]}", "dominance-missing")
                    if int(res[k]) < B:
                        raise Violation(f"sketch {i}: query(inf,{t}) reports {k!r} with {int(res[k])} < bound {B}", "dominance-count")
            if 2 * f > N:
                self.nt.add("majority_key")
                top = sut(sk.query, 1, 1)
                if not top or top[0][0] != k or int(top[0][1]) < 2 * f - N:
                    raise Violation(f"sketch {i}: majority key {k!r} (f={f} of N={N}) is not first in query(1,1): {top}", "majority-not-first")

    def __call__(self, touched, step):
        for i in range(self.w.n):  # all sketches: state must not be shared between sketch objects
            self.check_sketch(i)

    def flags(self):
        return "dominates_shared_cell" in self.nt, sorted(self.nt | self.w.flags)


def fresh_copy(world, sk):
    world.nfile += 1
    path = os.path.join(world.tmp, f"q{world.nfile}.npz")
    sut(sk.save, path)
    cp = sut(HeavyHitters.load, path)
    os.unlink(path)
    return cp
