"""C18 - counters saturate at their ceiling; they never wrap around."""
import math

import numpy as np
from hypothesis import given, strategies as st

from vf import common, machines
from vf.cms_common import ONE_MINUS, UMAX, decode, min_counter
from vf.common import CEIL, Violation
from vf.hh_common import cell_weights
from vf.world import CELLMAP, sut

from sketchnu.countmin import CountMin, CountMinLog8, CountMinLog16

RULE = (
    "(1) configuration grid: max_count in {10^k, 3*10^k, 2^k-1, 2^k, 2^k+1 for all k in range, 256, 257, 300, 400, 65536, 65537, 70000} x num_reserved 0..254 "
    "(log8) / every 257th value plus the top 100 (quick) or 300 (thorough) values below 65535 (log16); plus "
    "Hypothesis-drawn (max_count, num_reserved) pairs. Oracle: the constructor raises ValueError, or base is finite and > 1 and the ceiling "
    "(cms[:]=umax; query) decodes to max_count within 1e-6 relative. (2) Hypothesis rule-based machine over 2 sketches of one kind (linear; "
    "heavy hitters; log8/log16 with small max_count) with adds and merges whose sums land within +-3 of the ceiling from below and beyond, "
    "repeated after saturation; log draws planted as 0.0 (always advance) or 1-2^-53 (never). Oracle after every step: no count-min estimate of "
    "any universe key decreases; an estimate at the ceiling stays at the ceiling; a saturated log estimate decodes to max_count (1e-6); a "
    "heavy-hitter key that is alone in its cell in some row has hh[key] == min(true, 2^32-1) and never decreases; merge chains that push n_added of linear sketches beyond 2^64 (24 rounds of mutual merges, or 66 self-merges - after which the 64-bit counter reads exactly 0 - after a saturating add) keep every estimate; a key at the ceiling that arrives again as a shingle through add_ngram stays there; an add with a multiplicity of 2^63-1 .. 2^64-1 on a log sketch (max_count <= 10^6) leaves the key's smallest counter at the ceiling. "
    "Non-trivial: a counter within 3 of its ceiling is touched, or an accepted configuration with non-default num_reserved. Distinct = "
    "distinct configuration / distinct (configuration, step list)."
)
ASSUMPTIONS = [
    "1e-6 relative tolerance for the decoded ceiling, the tolerance of the repository's own test_max_count_* (pytest.approx default)",
    "max_count < 2^64 and 0 <= num_reserved (documented domains); other exceptions than ValueError from the constructor count as violations",
]

_POW = sorted({10**k for k in range(3, 20)} | {2**k + d for k in range(8, 65) for d in (-1, 0, 1)} | {3 * 10**k for k in range(3, 19)})
MAXC8 = sorted(x for x in set([256, 257, 300, 400, CEIL] + _POW) if 256 <= x < 2**64)
MAXC16 = sorted(x for x in set([65536, 65537, 70000, CEIL] + _POW) if 65536 <= x < 2**64)


def check_config(kind, mc, nr):
    """Returns 'rejected' / 'accepted'; raises Violation."""
    cls = CountMinLog8 if kind == "log8" else CountMinLog16
    umax = UMAX[kind]
    try:
        # through the class, or through the documented CountMin() convenience function
        sk = cls(2, 1, mc, nr) if (mc + nr) % 3 else CountMin(kind, 2, 1, mc, nr)
    except ValueError:
        return "rejected"
    except Exception as e:
        raise Violation(f"{kind}(max_count={mc}, num_reserved={nr}): constructor raised {type(e).__name__}: {e} (neither ValueError nor a sketch)", "constructor-exception")
    if int(sk.max_count) != mc or int(sk.num_reserved) != nr or type(sk) is not cls:
        raise Violation(f"{kind}(max_count={mc}, num_reserved={nr}) built a {type(sk).__name__} with max_count={int(sk.max_count)}, num_reserved={int(sk.num_reserved)}", "wrong-parameters")
    base = float(sk.base)
    if not (math.isfinite(base) and base > 1.0):
        raise Violation(f"{kind}(max_count={mc}, num_reserved={nr}) accepted with base={base!r}", "bad-base")
    sk.cms[:] = umax
    top = float(sut(sk.query, b"x"))
    if not (abs(top - mc) <= 1e-6 * mc):
        raise Violation(f"{kind}(max_count={mc}, num_reserved={nr}) accepted with base={base!r} but the ceiling decodes to {top!r}", "ceiling-decode")
    return "accepted"


def _grid_task(arg):
    kind, nrs = arg
    rec = common.Recorder()
    maxc = MAXC8 if kind == "log8" else MAXC16
    for nr in nrs:
        for mc in maxc:
            case = {"kind": kind, "max_count": mc, "num_reserved": nr}
            try:
                r = check_config(kind, mc, nr)
            except Violation as v:
                rec.violation(case, v.msg, v.signature)
                continue
            default = (kind == "log8" and nr == 15) or (kind == "log16" and nr == 1023)
            rec.case(case, r == "accepted" and not default, [f"config_{r}_{kind}"])
    return rec


def _cfg_shard(arg):
    seed, shard, n = arg
    rec = common.Recorder()
    holder = {}
    mcs = st.one_of(st.sampled_from(MAXC8 + MAXC16), st.integers(2, 2**64 - 1), st.integers(256, 10**7), st.integers(2, 70000))

    @given(kind=st.sampled_from(["log8", "log16"]), mc=mcs, nrf=st.floats(0, 1), nrd=st.integers(-3, 3))
    def test(kind, mc, nrf, nrd):
        umax = UMAX[kind]
        nr = min(umax - 1, max(0, int(nrf * (umax - 1)) + nrd))
        case = {"kind": kind, "max_count": mc, "num_reserved": nr}
        holder["case"] = case
        r = check_config(kind, mc, nr)
        rec.case(case, r == "accepted", [f"config_{r}_{kind}"])

    common.run_given(test, common.derive_seed(seed, "C18cfg", shard), n, holder, rec)
    return rec


# ------------------------------------------------------------------ histories at the ceiling

CFG = st.one_of(
    st.builds(lambda w, d: {"kind": "linear", "width": w, "depth": d}, st.sampled_from([1, 2, 3, 8, 8, 65536, 65537]), st.integers(1, 3)),
    st.builds(lambda w, d, mkl: {"kind": "hh", "width": w, "depth": d, "max_key_len": mkl, "phi": None}, st.sampled_from([1, 2, 3, 8]), st.integers(1, 3), st.sampled_from([2, 4])),
    st.builds(lambda w, d, c: dict({"kind": "log8", "width": w, "depth": d}, **c), st.sampled_from([1, 2, 3, 8]), st.integers(1, 3),
              st.sampled_from([{"max_count": 300, "num_reserved": 0}, {"max_count": 1000, "num_reserved": 15}, {"max_count": 400, "num_reserved": 200}, {"max_count": CEIL, "num_reserved": 15}])),
    st.builds(lambda w, d, c: dict({"kind": "log16", "width": w, "depth": d}, **c), st.sampled_from([1, 2, 3]), st.integers(1, 2),
              st.sampled_from([{"max_count": 70000, "num_reserved": 0}, {"max_count": 10**6, "num_reserved": 1023}, {"max_count": 70000, "num_reserved": 65000}])),
)

BIG = [CEIL - 3, CEIL - 2, CEIL - 1, CEIL, CEIL + 1, CEIL + 3, 2**31, 2**31 - 1, 2**33, (CEIL // 2) + 1, 2**63, 2**64 - 1, 2**64, 10**30]  # linear and heavy hitters take any Python int
VALUES_BIG = st.one_of(st.sampled_from([0, 1, 2, 3]), st.sampled_from(BIG), st.sampled_from(BIG))
VALUES_LOG = st.sampled_from([0, 1, 2, 3, 5, 100, 254, 255, 256, 1000, 65534, 65535, 65536, 70000])


class CeilingChecker:
    def __init__(self, world, case):
        self.w = world
        self.U = list(case.get("U", []))
        self.nt = set()
        self.prev = [dict() for _ in range(world.n)]
        self.prev_n = [0] * world.n

    def __call__(self, touched, step):
        w = self.w
        kind = w.kind
        for i in range(w.n):  # all sketches, not only the touched one
            sk = w.sk[i]
            if kind == "hh":
                self.check_hh(i, step)
            else:
                self.check_cms(i, step)

    def check_cms(self, i, step):
        w = self.w
        sk = w.sk[i]
        kind = w.kind
        umax = UMAX[kind]
        keys = sorted(set(self.U) | set(w.true[i]))
        for k in keys:
            q = sut(sk.query, k)
            old = self.prev[i].get(k)
            if old is not None and q < old:
                raise Violation(f"{kind} sketch {i}: estimate of {k!r} fell {old} -> {q} after {step['op']} {step.get('v', '')}", "estimate-decreased")
            c = min_counter(sk, w.cfg, k)
            if kind != "linear" and step["op"] == "add" and step["i"] == i and step["k"] == k and step.get("v", 1) >= 2**62 and c != umax:
                # ~max_count <= 10^6 expected unit steps reach the ceiling; 2^62 steps fail to with probability < 1e-100
                raise Violation(f"{kind} sketch {i}: add({k!r}, {step['v']}) left the smallest counter at {c}, not at the ceiling {umax}", "huge-add-not-saturated")
            if c >= umax - 3:
                self.nt.add("near_ceiling")
            if c == umax:
                self.nt.add("saturated")
                if kind != "linear":
                    mc = float(w.cfg["max_count"])
                    if abs(float(q) - mc) > 1e-6 * mc:
                        raise Violation(f"{kind} sketch {i}: saturated estimate of {k!r} is {q}, max_count is {mc}", "ceiling-decode")
                elif int(q) != CEIL:
                    raise Violation(f"linear sketch {i}: saturated counter but query={q}", "ceiling-decode")
            self.prev[i][k] = q

    def check_hh(self, i, step):
        w = self.w
        sk = w.sk[i]
        true = w.true[i]
        if not true:
            return
        W, npos, cells = cell_weights(w, i)
        # a key is 'alone in a row' if no other key that was ever passed in (any multiplicity) maps to its cell there
        seen = sorted(w.seen[i])
        allcells = {k: CELLMAP.cells(w.cfg, k) for k in seen}
        for k in seen:
            t = true.get(k, 0)
            alone = any(all(allcells[o][r] != allcells[k][r] for o in seen if o != k) for r in range(w.cfg["depth"]))
            v = int(sut(sk.__getitem__, k))
            if alone:
                old = self.prev[i].get(k, 0)
                if v < old:
                    raise Violation(f"hh sketch {i}: key {k!r} is alone in a cell but its count fell {old} -> {v} after {step['op']}", "hh-alone-decreased")
                if t >= CEIL and v != CEIL:
                    raise Violation(f"hh sketch {i}: key {k!r} is alone in a cell with true count {t} >= 2^32-1, but hh[key]={v} (must sit at the ceiling {CEIL}) after {step['op']}", "hh-not-at-ceiling")
                self.prev[i][k] = v
                if t >= CEIL - 3:
                    self.nt.add("near_ceiling")
                if t >= CEIL:
                    self.nt.add("saturated")
            else:
                self.prev[i].pop(k, None)

    def flags(self):
        return "near_ceiling" in self.nt, sorted(self.nt | {f"kind={self.w.kind}"})


def _values_for(kind):
    return VALUES_BIG if kind in ("linear", "hh") else VALUES_LOG


def _shard(arg):
    seed, shard, n_examples, steps = arg
    from hypothesis.stateful import rule

    rec = common.Recorder()
    holder = {}

    class Vals:
        pass

    @rule(i=machines.SK, ki=machines.IDX, data=st.data())
    def add(self, i, ki, data):
        v = data.draw(_values_for(self.world.kind), label="v")
        step = {"op": "add", "i": i % self.N, "k": self.key(ki), "v": v}
        if self.world.kind in ("log8", "log16"):
            step["draws"] = data.draw(st.sampled_from([[0.0], [0.0], [ONE_MINUS], [0.0, ONE_MINUS]]), label="draws")
        self.do(step)

    @rule(i=machines.SK, kis=st.lists(machines.IDX, min_size=1, max_size=3), data=st.data())
    def update_dict(self, i, kis, data):
        items = [[self.key(k), data.draw(_values_for(self.world.kind), label="v")] for k in kis]
        step = {"op": "update_dict", "i": i % self.N, "items": items}
        if self.world.kind in ("log8", "log16"):
            step["draws"] = data.draw(st.sampled_from([[0.0], [ONE_MINUS]]), label="draws")
        self.do(step)

    @rule(i=machines.SK, kis=st.lists(machines.IDX, min_size=0, max_size=4), data=st.data())
    def update_list(self, i, kis, data):
        step = {"op": "update_list", "i": i % self.N, "keys": [self.key(k) for k in kis]}
        if self.world.kind in ("log8", "log16"):
            step["draws"] = [0.0]
        self.do(step)

    @rule(i=machines.SK, ki=machines.IDX, sep=st.sampled_from([b"", b"x", b"\0"]))
    def ngram_at_ceiling(self, i, ki, sep):
        """a key is driven to the ceiling, then arrives again as a shingle of a longer text through add_ngram"""
        k = self.key(ki)
        if not k or self.world.kind not in ("linear", "hh"):
            return
        i = i % self.N
        self.do({"op": "add", "i": i, "k": k, "v": CEIL})
        self.do({"op": "add_ngram", "i": i, "k": k + sep + k, "n": len(k)})

    @rule(i=machines.SK, ki=machines.IDX, t=st.sampled_from([12, 24, 30]))
    def pump_n_added(self, i, ki, t):
        """drive n_added beyond 2^53 and beyond 2^64 (where the 64-bit bookkeeping counter wraps) the legitimate way: a
        saturating add, then t rounds of mutual merges of the two sketches; estimates must stay at the ceiling throughout"""
        if self.world.kind != "linear":
            return
        i = i % self.N
        j = (i + 1) % self.N
        self.do({"op": "add", "i": i, "k": self.key(ki), "v": CEIL})
        if t == 30:  # doubling by self-merges: n_added = (2^32-1) * 2^r wraps to exactly 0 after 64 rounds
            for _ in range(66):
                self.do({"op": "merge", "i": i, "j": i})
            self.do({"op": "merge", "i": i, "j": j})
            self.do({"op": "merge", "i": j, "j": i})
            return
        for _ in range(t):
            self.do({"op": "merge", "i": i, "j": j})
            self.do({"op": "merge", "i": j, "j": i})

    M = machines.make_machine(
        "C18Machine", CeilingChecker, rec, holder, SELF_MERGE=True, CFG=CFG, N=2, NGRAM=False, MAXKEY=6, DRAWS=None, pump_n_added=pump_n_added, ngram_at_ceiling=ngram_at_ceiling,
        add=add, update_dict=update_dict, update_list=update_list, add_huge_log=machines.huge_log_rule(),
    )
    common.run_machine(M, common.derive_seed(seed, "C18", shard), n_examples, steps, holder, rec, retry=lambda c_: machines.replay_trace(c_, CeilingChecker))
    return rec


def run(tier, seed, rec):
    quick = tier == "quick"
    nr8 = list(range(0, 255))
    nr16 = sorted(set(range(0, 65535, 257)) | {1023} | set(range(65235 if not quick else 65435, 65535)))
    jobs = [("log8", nr8[i::16]) for i in range(16)] + [("log16", nr16[i::16]) for i in range(16)]
    common.pool_merge(_grid_task, jobs, rec)
    if not rec.violations:
        rec.exhaustive.append(f"configuration grid of sub-check 1 (log8: 255 x {len(MAXC8)}, log16: {len(nr16)} x {len(MAXC16)})")
    total, shards = (4800, 16) if quick else (96000, 32)
    common.pool_merge(_cfg_shard, [(seed, i, total // shards) for i in range(shards)], rec)
    n_ex, steps, shards = (60, 30, 16) if quick else (300, 40, 32)
    common.pool_merge(_shard, [(seed, i, n_ex, steps) for i in range(shards)], rec)


def replay(case):
    if "steps" in case:
        machines.replay_trace(case, CeilingChecker)
    else:
        check_config(case["kind"], case["max_count"], case["num_reserved"])
