"""C19 - a failing callback or dead worker never silently corrupts or hangs parallel_add."""
import itertools
import json
import os
import random
import signal
import subprocess
import sys
import tempfile
import time

from vf import common
from vf.c08 import BASE_SPECS, mk_items
from vf.common import Violation
from vf.par_common import combos, run_case, schedules

RULE = (
    "Fault enumeration in-process (synchronous process context, real worker loop / monitor loop / merging code): for 3 items every marking of the "
    "items as {ok, raise-before-touching, raise-after-updating} (3^n) x every schedule over 1..3 workers; for 4 and 5 items every marking x "
    "seed-sampled schedules; and every (schedule, item) at which the worker processing that item dies (uncaught BaseException -> exit status 1, or killed by signal 9 from outside -> exit status -9), alone and combined with raising items; all with rotating cms/hh/hll argument combinations. Interleaved runs: the same faults with 7-70 items over 1-4 workers (callback exceptions incl. the OSError family and a class that cannot be unpickled) under a cooperative-thread context (bounded blocking queue, concurrent filler, seeded scheduler; a deadlock of all processes is a hang). Real spawned runs: a callback raising on "
    "one item and a worker calling os._exit(3) (quick: the os._exit run; thorough: both). Oracle: raising callbacks -> parallel_add returns, every "
    "item is handed to the callback once, HyperLogLog registers equal the sequential sketch over ok + raise-after items (nothing else), n_added of cms/hh equals "
    "their multiplicity, n_records equals the sum of the returns of ok items only, C01/C03/C04/C06 bounds hold w.r.t. that stream; dead worker -> "
    "parallel_add raises (any exception) instead of returning, within 1000 monitor polls (logical time; real runs get a generous wall-clock bound "
    "whose expiry is reported as inconclusive, never as a violation). Non-trivial: >= 1 faulted and >= 1 ok item on the same worker, or a death. "
    "Distinct = distinct (items with marking, n_workers, schedule, combination)."
)
ASSUMPTIONS = [
    "a worker 'dying' is modelled in-process as an exception the worker loop does not catch (BaseException subclass), giving a non-zero exit status; real runs use os._exit(3)",
    "faults during the merge phase are outside the property (DESIGN 9)",
]

MODES = ["ok", "raise_before", "raise_after"]


def marked_items(n, marking, spec_i=3):
    items = [it for it in mk_items(BASE_SPECS[spec_i]) if isinstance(it, dict)][:n]
    out = []
    for it, m in zip(items, marking):
        it = dict(it)
        it["mode"] = m
        out.append(it)
    return out


def nontrivial(case):
    for w, idxs in case["schedule"].items():
        modes = [case["items"][i]["mode"] for i in idxs]
        if any(m != "ok" for m in modes) and any(m == "ok" for m in modes):
            return True
    return any(it["mode"] in ("die", "exit", "kill9") for it in case["items"])


def _mark_task(arg):
    n, k, shard, nshards, sample, seed = arg
    rec = common.Recorder()
    cbs = combos()
    rnd = random.Random(seed)
    scheds = list(schedules(n, k))
    if sample and len(scheds) > sample:
        scheds = rnd.sample(scheds, sample)
    count = nt = 0
    sample_case = None
    t = 0
    for marking in itertools.product(MODES, repeat=n):
        for sched in scheds:
            t += 1
            if t % nshards != shard:
                continue
            case = {"items": marked_items(n, marking), "n_workers": k, "schedule": {str(w): v for w, v in sched.items()}, "combo": cbs[t % len(cbs)], "items_as": "list", "cb": "plain"}
            try:
                obs = run_case(case)
            except Violation as v:
                rec.violation(case, v.msg, v.signature)
                rec.bulk(count, nt)
                return rec
            count += 1
            if nontrivial(case):
                nt += 1
                sample_case = sample_case or case
    rec.bulk(count, nt, sample_case, {"raising_callback_runs": count, f"items={n}": count})
    return rec


def _death_task(arg):
    n, k, shard, nshards = arg
    rec = common.Recorder()
    cbs = combos()
    count = 0
    sample_case = None
    t = 0
    for sched in schedules(n, k):
        for victim in range(n):
            for others in (("ok",) * n, ("raise_after", "ok", "raise_before", "ok", "ok")[:n]):
                t += 1
                if t % nshards != shard:
                    continue
                marking = list(others)
                marking[victim] = "die" if t % 3 else "kill9"  # an uncaught exception (exit status 1) or a kill -9 from outside (-9)
                case = {"items": marked_items(n, marking), "n_workers": k, "schedule": {str(w): v for w, v in sched.items()}, "combo": cbs[t % len(cbs)], "items_as": "list", "cb": "plain"}
                try:
                    obs = run_case(case)
                except Violation as v:
                    rec.violation(case, v.msg, v.signature)
                    rec.bulk(count, count)
                    return rec
                count += 1
                sample_case = sample_case or dict(case, raised=obs["raised"])
    rec.bulk(count, count, sample_case, {"dead_worker_runs": count})
    return rec


def _coop_task(arg):
    """Faults under real interleavings (cooperative threads, bounded queue): many items, so that the filler is still
    blocked on the full queue when a worker dies or a callback raises."""
    seed, n_cases = arg
    rec = common.Recorder()
    cbs = combos()
    rnd = random.Random(seed)
    base = [it for it in mk_items(BASE_SPECS[3]) if isinstance(it, dict)]
    for t in range(n_cases):
        n = rnd.choice([7, 12, 16, 24, 30, 40, 70])
        k = rnd.choice([1, 2, 2, 3, 4]) if n < 40 else rnd.choice([1, 1, 2])  # >= 32 items per worker in the long runs
        items = []
        for i in range(n):
            it = dict(base[i % len(base)])
            it["idx"] = i
            it["mode"] = rnd.choice(["ok"] * 6 + ["raise_before", "raise_after"])
            items.append(it)
        death = t % 2 == 0
        if death:
            # early (the filler is still blocked), anywhere, or on the very last item (the other workers have already
            # taken their pills and exited cleanly when this one dies)
            items[rnd.choice([rnd.randrange(0, min(n, 4)), rnd.randrange(n), n - 1, n - 1])]["mode"] = "die" if t % 4 else "kill9"
        case = {"items": items, "n_workers": k, "schedule": {}, "combo": cbs[(t * 7 + 3) % len(cbs)], "items_as": "list", "cb": "plain", "ctx": "coop",
                "sched_seed": rnd.getrandbits(32), "policy": rnd.choice(["random", "parent_last", "parent_first", "filler_slow", "low_worker_first"])}
        try:
            obs = run_case(case)
        except Violation as v:
            rec.violation(case, v.msg, v.signature)
            return rec
        rec.case(case, True, ["interleaved_death_runs" if death else "interleaved_raising_runs"] + (["worker_died"] if obs.get("dying") else []))
    return rec


REAL_SCRIPT = r"""
import json, os, sys, warnings
warnings.filterwarnings("ignore")
repo, verif, mode = sys.argv[1], sys.argv[2], sys.argv[3]
sys.path.insert(0, repo); sys.path.insert(0, verif)
if __name__ == "__main__":
    import numpy as np
    from vf import cbmod
    from vf.c19 import marked_items
    import sketchnu.helpers as helpers
    marking = ["ok", "ok", mode, "ok", "ok"]
    items = marked_items(5, marking)
    try:
        res = helpers.parallel_add(items, cbmod.process_item, n_workers=2, cms_args={"cms_type": "linear", "width": 3, "depth": 2}, hll_args={"p": 7, "seed": 5})
    except BaseException as e:
        print("RAISED " + type(e).__name__ + ": " + str(e)[:200])
        sys.exit(0)
    cms, hll = res
    print("RESULT " + json.dumps({"n_added": int(cms.n_added()), "n_records": int(cms.n_records()), "hll": np.array(hll.registers).tolist()}))
    del res, cms, hll
"""


def start_real(mode):
    p = subprocess.Popen([sys.executable, "-W", "ignore", "-c", REAL_SCRIPT, common.REPO, common.VERIF_DIR, mode], stdout=subprocess.PIPE, stderr=subprocess.PIPE, text=True, start_new_session=True)
    return {"proc": p, "mode": mode, "t0": time.time()}


def finish_real(h, rec, timeout):
    import numpy as np

    from vf.par_common import expected_stream
    from sketchnu.hyperloglog import HyperLogLog

    p, mode = h["proc"], h["mode"]
    case = {"real_spawn": True, "mode": mode}
    try:
        out, err = p.communicate(timeout=max(10, timeout - (time.time() - h["t0"])))
    except subprocess.TimeoutExpired:
        os.killpg(p.pid, signal.SIGKILL)
        raise common.HarnessError(f"real spawned fault run (mode={mode}) did not finish within {timeout}s: inconclusive (not reported as a violation)")
    raised = [l for l in out.splitlines() if l.startswith("RAISED ")]
    result = [l for l in out.splitlines() if l.startswith("RESULT ")]
    if mode == "exit":
        if result:
            rec.violation(case, f"real run: a worker called os._exit(3) but parallel_add returned a result {result[0][:120]}", "dead-worker-ignored")
        elif not raised:
            rec.violation(case, f"real run (worker os._exit(3)): neither result nor exception; rc={p.returncode} {err.strip().splitlines()[-1] if err.strip() else ''}", "real-run-failed")
        rec.case(dict(case, outcome=(raised or ['?'])[0]), True, ["real_spawned_runs"])
        return
    if not result:
        rec.violation(case, f"real run: the callback raised on one item and parallel_add did not return: {(raised or [err.strip()[-200:]])[0]}", "parallel-add-raised")
        return
    got = json.loads(result[0][7:])
    items = marked_items(5, ["ok", "ok", mode, "ok", "ok"])
    eff, nrec = expected_stream(items)
    seq = HyperLogLog(7, 5)
    for k, _ in eff:
        seq.add(k)
    if got["hll"] != np.array(seq.registers).tolist() or got["n_added"] != sum(v for _, v in eff) or got["n_records"] != nrec:
        rec.violation(case, f"real run with a {mode} item: n_added/n_records={got['n_added']}/{got['n_records']} expected {sum(v for _, v in eff)}/{nrec}, registers equal={got['hll'] == np.array(seq.registers).tolist()}", "fault-result-wrong")
    rec.case(case, True, ["real_spawned_runs"])


def run(tier, seed, rec):
    quick = tier == "quick"
    real = [start_real("exit")] + ([] if quick else [start_real("raise_after")])
    jobs = []
    for k in (1, 2, 3):
        jobs += [(3, k, s, 2, 0, 0) for s in range(2)]
    ns = 4
    jobs += [(4, k, s, ns, 12 if quick else 80, common.derive_seed(seed, "C19", 4, k)) for k in (1, 2, 3) for s in range(ns)]
    jobs += [(5, k, s, ns, 3 if quick else 24, common.derive_seed(seed, "C19", 5, k)) for k in (2, 3) for s in range(ns)]
    common.pool_merge(_mark_task, jobs, rec)
    dj = [(3, k, s, 2) for k in (1, 2, 3) for s in range(2)]
    if not quick:
        dj += [(4, k, s, 8) for k in (2, 3) for s in range(8)]
    common.pool_merge(_death_task, dj, rec)
    common.pool_merge(_coop_task, [(common.derive_seed(seed, "C19-coop", i), 12 if quick else 120) for i in range(16)], rec)
    if not rec.violations:
        rec.exhaustive.append("3 items: all 27 markings x all schedules over 1..3 workers; every (schedule, victim item) death for 3 items over 1..3 workers")
    for h in real:
        finish_real(h, rec, 900 if quick else 1800)


def replay(case):
    if case.get("real_spawn"):
        r = common.Recorder()
        finish_real(start_real(case["mode"]), r, 1800)
        if r.violations:
            raise Violation(r.violations[0]["msg"], r.violations[0]["signature"])
        return
    run_case(case)
