"""C16 - shared-memory and attached sketches behave exactly like in-memory ones."""
import os
import time

import numpy as np
from hypothesis import given, strategies as st

from vf import common
from vf import strategies as vs
from vf.cms_common import DRAWS
from vf.common import CEIL, Violation
from vf.hh_common import none_threshold_ok
from vf.world import CLASS_OF, interfere, make_sketch, plant, snapshot, snap_diff, snap_equal, sut

import sketchnu.countmin as cmmod
import sketchnu.heavyhitters as hhmod
import sketchnu.hyperloglog as hlmod
from sketchnu import helpers

RULE = (
    "Hypothesis-generated cases per class (5 classes): shape chosen so that byte sizes are mostly odd (width*depth*itemsize not a multiple of "
    "8; heavy-hitter key area not a multiple of 4), an owner created with shared_memory=True (by the constructor, or by <Class>.load(file, shared_memory=True)), an ordinary in-memory twin, and up to 2 views "
    "attached through attach_existing_shm on a fresh object (one in four of them itself created with shared_memory=True: its own block must go when it is dropped, the owner's must stay) or helpers.attach_shared_memory(type, owner.args, owner.shm.name); a generated "
    "sequence of steps (add / update(list|dict) / update() fed an iterable that raises part-way / add_ngram / merge of two handles of the same block into each other (twin: sketch.merge(sketch)) / attach with a first attempt that fails with OSError and is retried / merge of another sketch (ordinary, or itself in shared memory and reached through an attached view, as parallel_merging does) / attach a view / drop a view) each routed to the owner "
    "or to any view and mirrored on the twin (same planted draws for log types); finally the handles are dropped in a generated order (owner "
    "last, or owner first while views still exist). Oracle after every step: owner, every view and the twin agree on tables, n_added/n_records "
    "and on queries asked through EVERY handle (count-min: all universe keys; heavy hitters: hh[key], query(inf,0), query(inf,1), query(3,None); "
    "HyperLogLog: query()); after dropping a view the owner's state is unchanged and /dev/shm/<name> still exists; after dropping the owner the "
    "segment is gone. Non-trivial: >= 1 view, >= 1 operation through a view, unaligned layout. Distinct = distinct case."
)
ASSUMPTIONS = [
    "sleep() inside __del__ is replaced by a no-op for throughput except in a fixed number of cases per run that use the real 0.25 s sleep",
    "the harness keeps no reference to shared buffers (snapshots are copies), so a failing close() is the library's",
]

TYPE_OF = {"linear": "cms", "log8": "cms", "log16": "cms", "hh": "hh", "hll": "hll"}
ODD = st.sampled_from([1, 3, 5, 7, 9, 11, 13, 2, 6, 10, 16])
CFGS = {
    "linear": st.builds(lambda w, d: {"kind": "linear", "width": w, "depth": d}, ODD, st.sampled_from([1, 3, 5, 2])),
    "log8": st.builds(lambda w, d, mc, nr: {"kind": "log8", "width": w, "depth": d, "max_count": mc, "num_reserved": nr}, ODD, st.sampled_from([1, 3, 5, 2]), st.sampled_from([CEIL, 1000]), st.sampled_from([15, 0, 3])),
    "log16": st.builds(lambda w, d, mc, nr: {"kind": "log16", "width": w, "depth": d, "max_count": mc, "num_reserved": nr}, ODD, st.sampled_from([1, 3, 5, 2]), st.sampled_from([CEIL, 70000]), st.sampled_from([1023, 0, 3])),
    "hh": st.builds(lambda w, d, m, phi, at: {"kind": "hh", "width": w, "depth": d, "max_key_len": m, "phi": phi, **({"argtype": at} if at else {})}, st.sampled_from([1, 3, 5, 7, 2, 70]), st.sampled_from([1, 3, 2, 4]), st.sampled_from([1, 3, 5, 7, 16]), st.sampled_from([None, 0.2]), st.sampled_from([None, None, None, "u8", "i8", "u32", "i64", "u64", "i32"])),
    "hll": st.builds(lambda p, s, at: {"kind": "hll", "p": p, "seed": s, **({"argtype": at} if at else {})}, st.sampled_from([7, 8, 11]), st.sampled_from([0, 2**63 + 9]), st.sampled_from([None, None, None, "u8", "i8", "u16", "i64", "u64", "i32"])),
}


@st.composite
def cases(draw):
    kind = draw(st.sampled_from(["linear", "log8", "log16", "hh", "hh", "hll"]))
    cfg = draw(CFGS[kind])
    log = kind in ("log8", "log16")
    U = draw(vs.universe(2, 5, 12))
    key = st.sampled_from(U)
    val = st.one_of(st.sampled_from([0, 1, 1, 2, 3, 9]), st.integers(0, 40))
    H = st.integers(0, 2)  # handle index, taken modulo the number of live handles
    steps = []
    for _ in range(draw(st.integers(2, 14))):
        k = draw(st.sampled_from(["add", "add", "add", "update_list", "update_interrupted", "update_dict", "add_ngram", "merge_in", "merge_own_view", "attach", "attach", "drop_view"]))
        s = {"op": k, "via": draw(H)}
        if k == "add":
            s["k"], s["v"] = draw(key), draw(val)
        elif k == "update_list":
            s["keys"] = draw(st.lists(key, max_size=4))
            if s["keys"] and draw(st.integers(0, 5)) == 0:  # one call with hundreds of entries (repeated, non-adjacent keys)
                n = draw(st.sampled_from([255, 256, 257, 300, 1024]))
                s["keys"] = [s["keys"][t % len(s["keys"])] for t in range(n)]
        elif k == "update_interrupted":  # the iterable raises after `at` keys; the caller catches that
            s["keys"] = draw(st.lists(key, min_size=1, max_size=6))
            s["at"] = draw(st.integers(0, len(s["keys"])))
        elif k == "update_dict":
            s["items"] = [[x, draw(val)] for x in draw(st.lists(key, max_size=3, unique=True))]
        elif k == "add_ngram":
            s["k"], s["n"] = draw(key), draw(st.integers(1, 5))
        elif k == "merge_in":
            s["other"] = [[draw(key), draw(val)] for _ in range(draw(st.integers(0, 3)))]
            s["other_shm"] = draw(st.booleans())  # the merged-in sketch itself lives in shared memory and is reached through a view
        elif k == "attach":
            s["how"] = draw(st.sampled_from(["method", "helper"]))
            s["fail_first"] = draw(st.sampled_from([False, False, False, True]))  # the first attempt fails (e.g. EMFILE); the caller retries
            s["own_shm"] = draw(st.sampled_from([False, False, False, True]))  # the attaching sketch was itself created with shared_memory=True
        if log:
            s["draws"] = draw(DRAWS)
        steps.append(s)
    if draw(st.integers(0, 9)) < 7:
        first = {"op": "attach", "via": 0, "how": draw(st.sampled_from(["method", "helper"]))}
        if log:
            first["draws"] = [0.0]
        steps.insert(draw(st.integers(0, min(2, len(steps)))), first)
    return {"cfg": cfg, "U": U, "steps": steps, "owner_first": draw(st.booleans()), "owner_via_load": draw(st.sampled_from([False, False, True]))}


class _FailOnce:
    """stands in for SharedMemory inside the sketch modules: the next attach raises OSError (out of file descriptors)"""

    def __init__(self, real):
        self.real = real
        self.armed = True

    def __call__(self, *a, **kw):
        if self.armed and not kw.get("create", False):
            self.armed = False
            raise OSError(24, "Too many open files")
        return self.real(*a, **kw)


def attach(cfg, owner, how, fail_first=False, own_names=None):
    kind = cfg["kind"]
    if how == "helper" and not fail_first and own_names is None:
        return sut(helpers.attach_shared_memory, TYPE_OF[kind], dict(owner.args), owner.shm.name)
    if own_names is not None:
        # the attaching sketch owns a block of its own (created with shared_memory=True) before it is pointed at the
        # other owner's block: dropping it later must remove ITS block and leave the other owner's alone
        v = sut(make_sketch, cfg, True)
        own_names.append(v.shm.name)
    else:
        v = sut(make_sketch, cfg)
    if fail_first:
        from vf.fakectx import RecordingSharedMemory

        RecordingSharedMemory.fail_next_attach = 1  # the next shm_open of an existing block fails (out of file descriptors)
        try:
            try:
                v.attach_existing_shm(owner.shm.name)
                # an implementation that needs no new mapping (it already holds one) is not affected by the fault
            except OSError:
                pass  # the caller catches the transient error ...
        finally:
            RecordingSharedMemory.fail_next_attach = 0
    sut(v.attach_existing_shm, owner.shm.name)  # ... and (re)tries with the same block name
    return v


class _Interrupted(Exception):
    pass


def act(sk, kind, s):
    if kind in ("log8", "log16") and "draws" in s:
        plant(sk, s["draws"])
    op = s["op"]
    if op == "add":
        sut(sk.add, s["k"], s["v"])
    elif op == "update_list":
        sut(sk.update, list(s["keys"]))
    elif op == "update_interrupted":
        def gen():
            for t, x in enumerate(s["keys"]):
                if t == s["at"]:
                    raise _Interrupted()
                yield x
            if s["at"] >= len(s["keys"]):
                raise _Interrupted()

        try:
            sk.update(gen())
        except _Interrupted:
            pass
        except Exception as e:  # noqa
            raise Violation(f"update() turned the iterable's own exception into {type(e).__name__}: {e}", "sut-exception")
    elif op == "update_dict":
        sut(sk.update, {k: v for k, v in s["items"]})
    elif op == "add_ngram":
        sut(sk.add_ngram, s["k"], s["n"])


def queries(sk, kind, U):
    if kind in ("linear", "log8", "log16"):
        return [("q", k, sut(sk.query, k)) for k in U] + [("n", int(sk.n_added()), int(sk.n_records()))]
    if kind == "hh":
        mkl = int(sk.max_key_len)
        out = [("g", k, int(sut(sk.__getitem__, k))) for k in U if len(k) <= mkl]
        for t in (0, 1):
            out.append(("Q", t, sorted((k, int(c)) for k, c in sut(sk.query, 10**9, t))))
        if none_threshold_ok(sk):
            out.append(("Q3", [int(c) for _, c in sut(sk.query, 3, None)]))
        out.append(("n", int(sk.n_added()), int(sk.n_records())))
        return out
    return [("q", sut(sk.query))]


def shm_path(name):
    return "/dev/shm/" + name.lstrip("/")


def run_case(case, real_sleep=False):
    cfg = case["cfg"]
    from vf.world import reset_interference

    reset_interference()
    kind = cfg["kind"]
    U = case["U"]
    stats = {"views": 0, "ops_via_view": 0}
    twin = sut(make_sketch, cfg)
    if case.get("owner_via_load"):
        # the owner comes out of <Class>.load(file, shared_memory=True) of a sketch holding a little data
        import shutil, tempfile

        seedsk = sut(make_sketch, cfg)
        for sk_ in (seedsk, twin):
            if kind in ("log8", "log16"):
                plant(sk_, [0.0])
            sut(sk_.add, U[0], 2)
            if kind != "hll":
                sk_.n_added_records[1] = np.uint64(5)
        d_ = tempfile.mkdtemp(prefix="vf_c16_")
        try:
            sut(seedsk.save, os.path.join(d_, "o.npz"))
            owner = sut(CLASS_OF[kind].load, os.path.join(d_, "o.npz"), True)
        finally:
            shutil.rmtree(d_, ignore_errors=True)
        stats["owner_via_load"] = 1
    else:
        owner = sut(make_sketch, cfg, True)
    name = owner.shm.name
    handles = [owner]  # handles[0] is the owner
    own_names = []  # blocks created by views that were themselves shared_memory=True sketches
    h = v = other = a_ = b_ = None
    try:
        def check(stage):
            st_twin = snapshot(twin, kind)
            q_twin = queries(twin, kind, U)
            for hi, h in enumerate(handles):
                sh = snapshot(h, kind)
                who = "owner" if hi == 0 else f"view {hi}"
                if not snap_equal(sh, st_twin):
                    raise Violation(f"{kind} {cfg}: {who} differs from the in-memory twin in {snap_diff(sh, st_twin)} {stage}", "state-differs")
                qh = queries(h, kind, U)
                if qh != q_twin:
                    d = next((a, b) for a, b in zip(qh, q_twin) if a != b)
                    raise Violation(f"{kind} {cfg}: queries through {who} differ from the in-memory twin {stage}: {d[0]} vs {d[1]}", "query-differs")

        check("right after creation")
        for si, s in enumerate(case["steps"]):
            op = s["op"]
            if si % 3 == 0:
                interfere(cfg)
            if op == "attach":
                if len(handles) < 3:
                    handles.append(attach(cfg, owner, s["how"], s.get("fail_first", False), own_names if s.get("own_shm") else None))
                    stats["views"] += 1
                    if s.get("own_shm"):
                        stats["views_that_own_a_block"] = stats.get("views_that_own_a_block", 0) + 1
            elif op == "drop_view":
                if len(handles) > 1:
                    idx = 1 + s["via"] % (len(handles) - 1)
                    before = snapshot(owner, kind)
                    v = handles.pop(idx)
                    v = None
                    if not os.path.exists(shm_path(name)):
                        raise Violation(f"{kind} {cfg}: dropping an attached view removed the owner's segment {name}", "view-unlinked-owner")
                    if not snap_equal(before, snapshot(owner, kind)):
                        raise Violation(f"{kind} {cfg}: dropping an attached view changed the owner's contents", "view-drop-changed-owner")
            elif op == "merge_own_view":
                # two handles on ONE block merged into each other: the in-memory equivalent is sketch.merge(sketch)
                if len(handles) >= 2:
                    a_ = handles[s["via"] % len(handles)]
                    b_ = handles[(s["via"] + 1) % len(handles)]
                    sut(a_.merge, b_)
                    a_ = b_ = None  # keep no handle alive beyond the step (the deletion checks rely on it)
                    sut(twin.merge, twin)
                    stats["ops_via_view"] += 1
                    stats["merge_own_view"] = stats.get("merge_own_view", 0) + 1
            elif op == "merge_in":
                h = handles[s["via"] % len(handles)]
                if s.get("other_shm"):
                    other_owner = sut(make_sketch, cfg, True)
                    other_name = other_owner.shm.name
                    other = attach(cfg, other_owner, "helper")
                else:
                    other_owner = other_name = None
                    other = sut(make_sketch, cfg)
                for k, v in s["other"]:
                    if kind in ("log8", "log16"):
                        plant(other, [0.0])
                    sut(other.add, k, v)
                sut(h.merge, other)
                sut(twin.merge, other)
                other = None
                if other_owner is not None:
                    other_owner = None
                    if os.path.exists(shm_path(other_name)):
                        raise Violation(f"{kind} {cfg}: segment {other_name} of a merged-in sketch still exists after its view and owner were dropped", "segment-survives-owner")
                    stats["shm_other"] = stats.get("shm_other", 0) + 1
                if h is not owner:
                    stats["ops_via_view"] += 1
            else:
                h = handles[s["via"] % len(handles)]
                act(h, kind, s)
                act(twin, kind, s)
                if h is not owner:
                    stats["ops_via_view"] += 1
            check(f"after step {si} ({op})")
        # deletion order
        if case["owner_first"] and len(handles) > 1:
            handles.pop(0)
            owner = h = v = None
            if os.path.exists(shm_path(name)):
                raise Violation(f"{kind} {cfg}: segment {name} still exists after the owner was dropped (views still attached)", "segment-survives-owner")
            handles.clear()
        else:
            h = v = None
            while len(handles) > 1:
                handles.pop()
            if not os.path.exists(shm_path(name)):
                raise Violation(f"{kind} {cfg}: segment {name} vanished before the owner was dropped", "view-unlinked-owner")
            handles.clear()
            owner = h = v = None
            if os.path.exists(shm_path(name)):
                raise Violation(f"{kind} {cfg}: segment {name} still exists after the owner was dropped", "segment-survives-owner")
        left = [n for n in own_names if os.path.exists(shm_path(n))]
        if left:
            raise Violation(f"{kind} {cfg}: a sketch created with shared_memory=True was attached to another block and dropped, but its own segment {left[0]} still exists", "segment-survives-owner")
    finally:
        handles.clear()
        owner = h = v = None
        for n in own_names:
            if os.path.exists(shm_path(n)):
                try:
                    os.unlink(shm_path(n))
                except OSError:
                    pass
        if os.path.exists(shm_path(name)):
            try:
                os.unlink(shm_path(name))  # only the segment this case created
            except OSError:
                pass
    return stats


def unaligned(cfg):
    kind = cfg["kind"]
    if kind == "hll":
        return False
    if kind == "hh":
        return (cfg["width"] * cfg["depth"] * cfg["max_key_len"]) % 4 != 0 or (cfg["width"] * cfg["depth"] * (cfg["max_key_len"] + 5)) % 8 != 0
    item = {"linear": 4, "log16": 2, "log8": 1}[kind]
    return (cfg["width"] * cfg["depth"] * item) % 8 != 0


def _shard(arg):
    seed, shard, n_examples = arg
    rec = common.Recorder()
    holder = {}

    @given(case=cases())
    def test(case):
        holder["case"] = case
        stats = run_case(case)
        cl = [f"kind={case['cfg']['kind']}"]
        ua = unaligned(case["cfg"])
        if ua:
            cl.append("unaligned_layout")
        if stats["views"]:
            cl.append("has_view")
        if stats["ops_via_view"]:
            cl.append("op_through_view")
        if case["owner_first"] and stats["views"]:
            cl.append("owner_dropped_first")
        if stats.get("shm_other"):
            cl.append("merged_in_sketch_in_shared_memory")
        if stats.get("owner_via_load"):
            cl.append("owner_created_by_load")
        if stats.get("merge_own_view"):
            cl.append("merge_of_two_handles_on_one_block")
        if stats.get("views_that_own_a_block"):
            cl.append("view_that_owns_a_block_of_its_own")
        rec.case(case, stats["views"] >= 1 and stats["ops_via_view"] >= 1 and (ua or case["cfg"]["kind"] == "hll"), cl)

    # __del__ of a sketch that owns one block and is attached to another raises after its own block is gone (the unchanged
    # library does: "Failed to close existing_shm"); Python reports such exceptions on stderr and ignores them. They are
    # counted in the evidence instead of printed; no oracle depends on them.
    import sys

    ignored = []
    old_hook = sys.unraisablehook
    sys.unraisablehook = lambda u: ignored.append(type(u.exc_value).__name__)
    try:
        common.run_given(test, common.derive_seed(seed, "C16", shard), n_examples, holder, rec, retry=run_case)
    finally:
        sys.unraisablehook = old_hook
    if ignored:
        rec.count("exceptions_ignored_in___del__", len(ignored))
    return rec


def _real_sleep_task(arg):
    """a fixed number of deterministic cases with the library's real sleep(0.25) in __del__"""
    idx = arg
    rec = common.Recorder()
    for m in (cmmod, hhmod, hlmod):
        m.sleep = time.sleep
    try:
        kinds = ["linear", "log8", "log16", "hh", "hll"]
        kind = kinds[idx % 5]
        cfg = {"linear": {"kind": "linear", "width": 3, "depth": 3}, "log8": {"kind": "log8", "width": 5, "depth": 3, "max_count": CEIL, "num_reserved": 15},
               "log16": {"kind": "log16", "width": 7, "depth": 1, "max_count": CEIL, "num_reserved": 1023}, "hh": {"kind": "hh", "width": 3, "depth": 1, "max_key_len": 5, "phi": None},
               "hll": {"kind": "hll", "p": 7, "seed": 3}}[kind]
        case = {"cfg": cfg, "U": [b"a", b"", b"a\0"], "owner_first": bool((idx // 5) % 2), "steps": [
            {"op": "add", "via": 0, "k": b"a", "v": 2, "draws": [0.0]}, {"op": "attach", "via": 0, "how": "helper"}, {"op": "add", "via": 1, "k": b"", "v": 3, "draws": [0.0]},
            {"op": "attach", "via": 0, "how": "method"}, {"op": "update_list", "via": 2, "keys": [b"a\0", b"a"], "draws": [0.0]}, {"op": "drop_view", "via": 0},
            {"op": "add", "via": 1, "k": b"a", "v": 1, "draws": [0.0]}]}
        try:
            run_case(case)
            rec.case(dict(case, real_sleep=True), True, ["real_sleep_cases"])
        except Violation as v:
            rec.violation(dict(case, real_sleep=True), "(real sleep) " + v.msg, v.signature)
    finally:
        common.patch_sleep()
    return rec


def run(tier, seed, rec):
    total, shards = (1600, 16) if tier == "quick" else (32000, 32)
    common.pool_merge(_shard, [(seed, i, total // shards) for i in range(shards)], rec)
    common.pool_merge(_real_sleep_task, list(range(8 if tier == "quick" else 64)), rec)


def replay(case):
    run_case(case)
