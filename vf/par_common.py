"""Shared machinery for the parallel_add checks (C08, C19): case execution through the
synchronous context, the sequential model, and the result oracles."""
import gc
import itertools
from collections import Counter

import numpy as np

from vf import cbmod, coopctx, fakectx
from vf.c01 import Checker as LinearBounds
from vf.c06 import LowerBound as LogLowerBound
from vf.common import CEIL, Violation
from vf.hh_common import Dominance, NoOverCount
from vf.world import windows

import sketchnu.helpers as helpers
from sketchnu.countmin import CountMinLinear, CountMinLog8, CountMinLog16
from sketchnu.heavyhitters import HeavyHitters
from sketchnu.hyperloglog import HyperLogLog

CMS_CLASS = {"linear": CountMinLinear, "log16": CountMinLog16, "log8": CountMinLog8}

KEYPOOL = [b"", b"\0", b"a", b"a\0", b"ab", b"\xff\x80", b"abcdefgh", b"abcdefghi", b"\0\0", b"b"]


def combos():
    """every non-empty subset of {cms (3 counter types), hh, hll} as parallel_add keyword arguments"""
    out = []
    cms_variants = [
        {"cms_type": "linear", "width": 3, "depth": 3},  # 36 counter bytes: bookkeeping words unaligned
        {"cms_type": "log8", "width": 3, "depth": 2, "max_count": 100000, "num_reserved": 3},
        {"cms_type": "log16", "width": 3, "depth": 3},
        {"cms_type": "log8", "width": 5, "depth": 2, "max_count": 10**6, "num_reserved": 100},  # more reserved counters than the default
        {"cms_type": "log16", "width": 4, "depth": 1, "max_count": 10**7, "num_reserved": 2000},
    ]
    hh = {"width": 3, "depth": 2, "max_key_len": 3}  # 18 key bytes: counts and lengths unaligned
    hll = {"p": 7, "seed": 2**63 + 11}
    for cms in [None] + cms_variants:
        for h in (None, hh):
            for l in (None, hll):
                if cms is None and h is None and l is None:
                    continue
                out.append({"cms_args": cms, "hh_args": h, "hll_args": l})
    return out


PRIOR_ITEMS = [{"keys": [b"pr1", b"pr2", b"pr1"], "mult": None, "ngram": None, "ret": 2, "mode": "ok", "idx": 0},
               {"keys": [b"pr3", b"pr1"], "mult": [5, 9], "ngram": None, "ret": 1, "mode": "ok", "idx": 1}]


def _snap(sk):
    """copies of every public array of a sketch"""
    out = []
    for name in ("cms", "registers", "lhh", "lhh_count", "key_lens", "n_added_records"):
        a = getattr(sk, name, None)
        if a is not None:
            out.append(np.array(a, copy=True))
    return out


def item_effect(item):
    """list of (key, multiplicity) the callback adds for this item"""
    item = cbmod.normalize(item)
    if item.get("ngram"):
        return [(w, 1) for k in item["keys"] for w in windows(k, item["ngram"])]
    if item.get("mult") is not None:
        d = {}
        for k, v in zip(item["keys"], item["mult"]):
            d[k] = v
        return list(d.items())
    return [(k, 1) for k in item["keys"]]


def schedules(n_items, n_workers):
    """every (assignment, per-worker order): yields dict worker -> list of item indices"""
    for assign in itertools.product(range(n_workers), repeat=n_items):
        groups = [[i for i in range(n_items) if assign[i] == w] for w in range(n_workers)]
        for perms in itertools.product(*[itertools.permutations(g) for g in groups]):
            yield {w: list(perms[w]) for w in range(n_workers)}


class Shim:
    """looks like a World with one sketch, for re-using the history oracles"""

    def __init__(self, cfg, sk, true, total):
        self.cfg = cfg
        self.kind = cfg["kind"]
        self.sk = [sk]
        self.true = [true]
        self.total = [total]
        self.seen = [set(true)]
        self.flags = set()
        self.n = 1


def run_case(case, expect_fault=False):
    """Executes parallel_add under the synchronous context and checks the C08 oracles for the
    items whose mode is 'ok' / 'raise_after' (C19 passes faulted items).  Returns a dict of
    observations.  Raises Violation."""
    items = case["items"]
    n_workers = case["n_workers"]
    combo = case["combo"]
    sched = {int(k): v for k, v in case["schedule"].items()}
    kw = {k: v for k, v in combo.items() if v is not None}
    real_items = [cbmod.realize(it) for it in items]
    arg_items = {"list": list(real_items), "tuple": tuple(real_items), "generator": (x for x in real_items)}[case.get("items_as", "list")]
    cb = {"kw": cbmod.process_item_kw, "opts": cbmod.process_item_opts}.get(case.get("cb"), cbmod.process_item)
    extra = {"bonus": 2} if case.get("cb") in ("kw", "opts") else {}
    obs = {"raised": None, "hang": False}
    res = None
    coop = case.get("ctx") == "coop"
    cores = case.get("cores", [None, 1, 2, 64][(n_workers + len(items)) % 4])
    # "prior": an earlier parallel_add call of the same process whose result the caller still holds (same arguments,
    # another stream); the call under test must neither see its data nor disturb it
    prior = prior_snap = None
    if case.get("prior"):
        with fakectx.Patched({0: list(range(len(PRIOR_ITEMS)))}, 1, cores):
            try:
                prior = helpers.parallel_add(list(PRIOR_ITEMS), cbmod.process_item, n_workers=1, **kw)
            except Exception as e:  # noqa
                raise Violation(f"parallel_add raised {type(e).__name__}: {e} (n_workers=1, {len(PRIOR_ITEMS)} items)", "parallel-add-raised")
        prior_snap = [_snap(x) for x in (prior if isinstance(prior, tuple) else [prior])]
    patched = coopctx.Patched(case["sched_seed"], case.get("policy", "random"), n_workers, cores) if coop else fakectx.Patched(sched, n_workers, cores)
    calls = []
    cbmod.deliver_hook = lambda it: calls.append(repr(it["idx"]))
    with patched as ctx:
        try:
            res = helpers.parallel_add(arg_items, cb, n_workers=n_workers, **kw, **extra)
        except fakectx.Hang as e:
            obs["hang"] = True
            obs["raised"] = repr(e)
        except Exception as e:  # noqa
            obs["raised"] = f"{type(e).__name__}: {e}"
            e.__traceback__ = None
        inq = [q for q in ctx.queues if q.is_in_queue or q.pills]
        obs["put_items"] = len(inq[0].items) if inq else None
        obs["pills"] = inq[0].pills if inq else None
        cbmod.deliver_hook = None
        obs["callback_calls"] = calls
        obs["delivered"] = list(ctx.delivered)
        obs["child_errors"] = list(ctx.child_errors)
        obs["polls"] = ctx.polls
        obs["worker_exitcodes"] = [p.exitcode for p in ctx.processes if p.name == "_worker"]
        if coop:
            obs["switches"] = ctx.sched.switches
            obs["workers_used"] = len({w for w, _ in ctx.delivered})
    try:
        if obs["hang"]:
            raise Violation(f"parallel_add does not terminate: {obs['raised']}", "hang")
        # a worker 'died' only if its process really ended with a non-zero status (an implementation that
        # survives the injected fault is judged like one whose callback raised before touching the sketches);
        # a death is legitimate only if the case injected one: an ordinary exception from the callback must
        # not take the worker down
        died = any(c not in (0, None) for c in obs["worker_exitcodes"])
        injected = any(cbmod.normalize(it).get("mode") in ("die", "exit", "kill9") for it in items)
        if died and not injected:
            raise Violation(f"a worker process ended with a non-zero status although no death was injected ({obs['child_errors']}); parallel_add outcome: {obs['raised'] or 'returned'}", "worker-killed-by-callback-exception")
        if died:
            obs["dying"] = True
            if obs["raised"] is None:
                raise Violation(f"a worker died ({obs['child_errors']}) but parallel_add returned a result instead of raising", "dead-worker-ignored")
            return obs
        if obs["raised"] is not None:
            raise Violation(f"parallel_add raised {obs['raised']} (n_workers={n_workers}, items as {case.get('items_as', 'list')})", "parallel-add-raised")
        check_result(case, res, obs)
        if prior is not None:
            now = [_snap(x) for x in (prior if isinstance(prior, tuple) else [prior])]
            for a, b, x in zip(prior_snap, now, prior if isinstance(prior, tuple) else [prior]):
                if any(not np.array_equal(u, v) for u, v in zip(a, b)):
                    raise Violation(f"the {type(x).__name__} returned by an earlier parallel_add call changed while a later call ran", "earlier-result-disturbed")
        return obs
    finally:
        res = prior = None
        gc.collect()
        leaked = fakectx.leaked_segments()
        obs["leaked_segments"] = len(leaked)
        fakectx.remove_segments(leaked)


def expected_stream(items):
    """(effects of ok + raise_after items, sum of ret over ok items)"""
    eff, nrec = [], 0
    for it in items:
        it = cbmod.normalize(it)
        mode = it.get("mode", "ok")
        if mode in ("ok", "raise_after"):  # 'die' that did not kill the worker == raise_before: nothing added
            eff += item_effect(it)
        if mode == "ok":
            nrec += it["ret"]
    return eff, nrec


def check_result(case, res, obs):
    items = case["items"]
    combo = case["combo"]
    n_workers = case["n_workers"]
    bonus = 2 if case.get("cb") in ("kw", "opts") else 0
    present = [k for k in ("cms_args", "hh_args", "hll_args") if combo.get(k) is not None]
    ctx_s = f"n_workers={n_workers} schedule={case['schedule']}"
    # every item is handed to the callback exactly once (judged by the callback's own log, not by how the library moves
    # items between its processes: an implementation may batch them)
    want = Counter(repr(cbmod.normalize(it)["idx"]) for it in items)
    got = Counter(obs["callback_calls"])
    if want != got:
        lost = sorted((want - got).elements())[:5]
        extra = sorted((got - want).elements())[:5]
        raise Violation(f"{len(items)} items were given; the callback was invoked {sum(got.values())} times: never for {lost}, too often for {extra} ({ctx_s})", "items-lost-or-duplicated")
    # identify the returned sketches by class (the order of the tuple is documented, but it is not part of
    # the property: an unexpected order is counted in the evidence, not reported)
    parts = list(res) if isinstance(res, tuple) else [res]
    want_cls = {"cms_args": CMS_CLASS[combo["cms_args"]["cms_type"]] if combo.get("cms_args") else None, "hh_args": HeavyHitters, "hll_args": HyperLogLog}
    by = {}
    for k in present:
        match = [x for x in parts if type(x) is want_cls[k]]
        if len(match) != 1:
            raise Violation(f"parallel_add returned {[type(x).__name__ for x in parts]}; expected exactly one {want_cls[k].__name__} for {k}", "result-missing")
        by[k] = match[0]
    obs["documented_order"] = [type(x) for x in parts] == [want_cls[k] for k in present]
    eff, nrec = expected_stream(items)
    nrec += bonus * sum(1 for it in items if cbmod.normalize(it).get("mode", "ok") == "ok")
    total = sum(v for _, v in eff)
    if "hll_args" in by:
        seq = HyperLogLog(**combo["hll_args"])
        for k, _ in eff:
            seq.add(k)
        got = np.array(by["hll_args"].registers, copy=True)
        if not np.array_equal(got, seq.registers):
            j = int(np.nonzero(got != seq.registers)[0][0])
            raise Violation(f"HyperLogLog register {j} is {int(got[j])}, sequential sketch has {int(seq.registers[j])} ({ctx_s})", "hll-differs-from-sequential")
    if "cms_args" in by:
        sk = by["cms_args"]
        a = combo["cms_args"]
        if int(sk.n_added()) != total:
            raise Violation(f"count-min n_added()={int(sk.n_added())}, total multiplicity added is {total} ({ctx_s})", "cms-n-added")
        if int(sk.n_records()) != nrec:
            raise Violation(f"count-min n_records()={int(sk.n_records())}, callbacks returned {nrec} in total ({ctx_s})", "cms-n-records")
        true = Counter()
        for k, v in eff:
            true[k] += v
        cfg = {"kind": a["cms_type"], "width": a["width"], "depth": a["depth"]}
        if a["cms_type"] != "linear":
            cfg["max_count"] = a.get("max_count", CEIL)
            cfg["num_reserved"] = a.get("num_reserved", 15 if a["cms_type"] == "log8" else 1023)
        shim = Shim(cfg, sk, true, total)
        if a["cms_type"] == "linear":
            LinearBounds(shim, {"U": KEYPOOL}).check_sketch(0)
        else:
            LogLowerBound(shim, {"U": KEYPOOL})({0}, {"op": "parallel_add"})
    if "hh_args" in by:
        sk = by["hh_args"]
        a = combo["hh_args"]
        if int(sk.n_added()) != total:
            raise Violation(f"heavy hitters n_added()={int(sk.n_added())}, total multiplicity added is {total} ({ctx_s})", "hh-n-added")
        if int(sk.n_records()) != nrec:
            raise Violation(f"heavy hitters n_records()={int(sk.n_records())}, callbacks returned {nrec} in total ({ctx_s})", "hh-n-records")
        true = Counter()
        for k, v in eff:
            true[k[: a["max_key_len"]]] += v
        cfg = {"kind": "hh", "width": a["width"], "depth": a["depth"], "max_key_len": a["max_key_len"], "phi": a.get("phi")}
        shim = Shim(cfg, sk, true, total)
        NoOverCount(shim, {"U": [k for k in KEYPOOL if len(k) <= a["max_key_len"]]}).check_sketch(0)
        Dominance(shim, {"U": []}).check_sketch(0)
