"""C08 - parallel_add gives the sequential result for every worker count and schedule."""
import json
import os
import subprocess
import sys
import tempfile
import time

from hypothesis import given, strategies as st

from vf import common
from vf.common import Violation
from vf.par_common import KEYPOOL, combos, run_case, schedules

RULE = (
    "Schedules are ENUMERATED against the real _fill_queue/_worker/attach_shared_memory/parallel_merging/_merge_worker code under a synchronous "
    "process context (real SharedMemory, arguments pickled as spawn would): for item lists of n <= 4 items and k <= 3 workers (quick) / n <= 6, "
    "k <= 4 (thorough) every (assignment of items to workers, per-worker order); all 15 combinations of cms (linear/log8/log16) / hh / hll "
    "arguments; items given as list, tuple and generator; n_workers 5..9 with schedules that load single workers (first/last/odd: the carried "
    "sketch of pairwise merging) plus Hypothesis-drawn (items, n_workers 1..9, schedule, combination) cases. Items are dicts describing lists of keys, or plain values incl. falsy ones (0, '', b'', [], ()), numpy arrays and objects that compare equal to everything (possibly "
    "empty, sharing keys, NUL/long keys), updated by list, dict-with-multiplicities or ngram calls; callbacks return generated record counts (also "
    "through callbacks whose result depends on a keyword argument passed through parallel_add, declared explicitly or taken through a **opts catch-all). Oracle per run: the callback is invoked exactly once per item (judged by the callback's own log, so an implementation may batch items); returned sketches identified by class (an undocumented tuple order is only counted); HyperLogLog registers == sequential sketch; n_added of cms/hh == total multiplicity; n_records == sum of callback "
    "returns; linear cms within the C01 bounds, log cms above the C06 lower bound, hh within C03/C04 bounds w.r.t. the whole stream. A quarter of the drawn cases run after an earlier parallel_add call of the same process (same arguments, other keys) whose result is still held: the later result must not contain its data and the earlier result must not change. Interleaved runs: the same code under a cooperative-thread context (bounded blocking queue, concurrent filler, seeded scheduler with 5 policies) for Hypothesis-drawn cases with up to 40 items and 6 workers. Real spawned "
    "runs (quick 1, thorough 4; a side file records (pid, item); the callback starts a child process of its own for every other item) validate the context. Non-trivial: >= 2 workers receive items and n_workers >= 3 "
    "or odd. Distinct = distinct (items, n_workers, schedule, combination, items_as)."
)
ASSUMPTIONS = [
    "each worker owns its sketches and merging starts after all workers stopped, so the result is a function of (assignment, per-worker order) only; the synchronous context enumerates exactly that space (DESIGN 5.4)",
    "real OS scheduling is sampled by a few spawned runs, not controlled",
]


def mk_items(spec):
    """spec: list of (keys idx list, kind, ret)"""
    items = []
    for i, (kidx, kind, ret, mult) in enumerate(spec):
        keys = [KEYPOOL[j % len(KEYPOOL)] for j in kidx]
        if kind == "nparr":  # items whose == is element-wise (numpy arrays) ...
            items.append({"special": "nparr", "vals": [j * 7 + ret for j in kidx]})
            continue
        if kind == "any":  # ... or that compare equal to everything
            items.append({"special": "any", "tag": ret})
            continue
        if kind in ("int", "str", "bytes", "rawlist", "rawtuple"):
            # items need not be dicts: plain picklable values incl. falsy ones (0, "", b"", [], ())
            v = ret % 4
            items.append({"int": [0, 1, 7, 0][v], "str": ["", "x", "caf\u00e9", ""][v], "bytes": [b"", b"\0", b"zz", b""][v], "rawlist": [[], keys, keys[:1], []][v],
                          "rawtuple": [(), tuple(keys), tuple(keys[:2]), ()][v]}[kind])
            continue
        it = {"keys": keys, "mult": None, "ngram": None, "ret": ret, "mode": "ok", "idx": i}
        if (i + ret) % 3 == 0:  # record counts returned as numpy integers (e.g. the result of an array .sum())
            it["ret_type"] = ["i64", "u32", "u8", "i32", "u64"][(i + len(keys)) % 5]
        if kind == "dict":
            it["mult"] = [MULTS[m % 9] for m in (mult + [2] * len(keys))[: len(keys)]]
        elif kind == "ngram":
            it["ngram"] = 3
        items.append(it)
    return items


MULTS = [1, 2, 3, 4, 5, 6, 7, 40, 300]  # beyond the default log8 reserved range, far below every ceiling in combos()

BASE_SPECS = [
    [([2, 4, 2], "list", 3, []), ([3, 6], "dict", 2, [5, 1]), ([7, 0], "ngram", 1, []), ([], "int", 0, [])],
    [([1, 8], "dict", 2, [2, 7]), ([2], "rawlist", 0, []), ([7, 7, 9], "list", 4, []), ([5, 6, 4], "ngram", 2, [])],
    [([0], "str", 0, []), ([2, 3], "dict", 5, [7, 8]), ([1, 2, 0], "nparr", 0, []), ([2], "bytes", 0, [])],
    [([6, 7], "ngram", 2, []), ([1, 1, 1], "list", 3, []), ([4, 9, 5, 2], "dict", 4, [1, 2, 3, 4]), ([8], "list", 1, []), ([2, 3], "list", 2, []), ([0, 1], "dict", 2, [6, 6])],
]


def nontrivial(case):
    busy = sum(1 for v in case["schedule"].values() if v)
    return busy >= 2 and (case["n_workers"] >= 3 or case["n_workers"] % 2 == 1)


def _enum_task(arg):
    spec_i, n_items, k, combo_i, items_as, shard, nshards = arg
    rec = common.Recorder()
    items = mk_items(BASE_SPECS[spec_i])[:n_items]
    cbs = combos()
    count = nt = 0
    sample = None
    for si, sched in enumerate(schedules(len(items), k)):
        if si % nshards != shard:
            continue
        combo = cbs[(combo_i + si) % len(cbs)] if combo_i < 0 else cbs[combo_i]
        case = {"items": items, "n_workers": k, "schedule": {str(w): v for w, v in sched.items()}, "combo": combo, "items_as": items_as, "cb": "kw" if si % 5 == 0 else ("opts" if si % 5 == 3 else "plain")}
        try:
            obs = run_case(case)
        except Violation as v:
            rec.violation(case, v.msg, v.signature)
            rec.bulk(count, nt)
            return rec
        if not obs.get("documented_order", True):
            rec.count("undocumented_return_order")
        count += 1
        if nontrivial(case):
            nt += 1
            if sample is None:
                sample = case
    rec.bulk(count, nt, sample, {"enumerated_schedules": count, f"workers={k}": count})
    return rec


def special_schedules(n_items, k):
    """load single workers (first / last / odd ones) and round-robin"""
    out = [{0: list(range(n_items))}, {k - 1: list(range(n_items))}, {w: [i for i in range(n_items) if i % k == w] for w in range(k)}]
    out.append({w: [i for i in range(n_items) if (2 * i + 1) % k == w] for w in range(k)})
    out.append({k - 1: [0], 0: list(range(1, n_items))})
    if k >= 3:
        out.append({k - 1: list(range(n_items))[::-1][: n_items // 2], k - 2: list(range(n_items))[::-1][n_items // 2 :]})
    return [{w: v for w, v in s.items() if v or True} for s in out]


def _special_task(arg):
    k, spec_i = arg
    rec = common.Recorder()
    items = mk_items(BASE_SPECS[spec_i])
    cbs = combos()
    for si, sched in enumerate(special_schedules(len(items), k)):
        for ci in ((si * 3) % len(cbs), 7 % len(cbs)):
            case = {"items": items, "n_workers": k, "schedule": {str(w): v for w, v in sched.items()}, "combo": cbs[ci], "items_as": ["list", "tuple", "generator"][si % 3], "cb": "plain", "prior": si % 2 == 1}
            try:
                run_case(case)
            except Violation as v:
                rec.violation(case, v.msg, v.signature)
                return rec
            rec.case(case, nontrivial(case), [f"workers={k}", "special_schedules"])
    return rec


def _hyp_shard(arg):
    seed, shard, n = arg
    rec = common.Recorder()
    holder = {}
    cbs = combos()

    @st.composite
    def cases(draw):
        n_items = draw(st.integers(0, 6))
        spec = []
        for _ in range(n_items):
            kidx = draw(st.lists(st.integers(0, 9), max_size=4))
            spec.append((kidx, draw(st.sampled_from(["list", "dict", "ngram", "list", "dict", "int", "str", "bytes", "rawlist", "rawtuple", "nparr", "any"])), draw(st.integers(0, 5)), draw(st.lists(st.integers(0, 8), max_size=4))))
        k = draw(st.integers(1, 9))
        assign = [draw(st.integers(0, k - 1)) for _ in range(n_items)]
        order = draw(st.permutations(list(range(n_items)))) if n_items else []
        sched = {}
        for i in order:
            sched.setdefault(str(assign[i]), []).append(i)
        return {"items": mk_items(spec), "n_workers": k, "schedule": sched, "combo": draw(st.sampled_from(cbs)), "items_as": draw(st.sampled_from(["list", "list", "tuple", "generator"])),
                "cb": draw(st.sampled_from(["plain", "kw", "opts"])), "prior": draw(st.sampled_from([False, False, False, True]))}

    @given(case=cases())
    def test(case):
        holder["case"] = case
        run_case(case)
        rec.case(case, nontrivial(case), [f"workers={case['n_workers']}", "hypothesis_cases", f"items_as={case['items_as']}"] + (["after_an_earlier_call_whose_result_is_held"] if case["prior"] else []))

    common.run_given(test, common.derive_seed(seed, "C08", shard), n, holder, rec)
    return rec


POLICIES = ["random", "random", "parent_last", "parent_first", "filler_slow", "low_worker_first"]


def _coop_shard(arg):
    """Real interleavings: every process is a cooperative thread, the queue is bounded (3*n_workers) and blocks,
    the filler runs concurrently with the workers; a seeded scheduler decides who runs at every queue operation."""
    seed, shard, n = arg
    rec = common.Recorder()
    holder = {}
    cbs = combos()

    @st.composite
    def cases(draw):
        n_items = draw(st.one_of(st.integers(0, 8), st.integers(8, 40)))
        spec = []
        for _ in range(n_items):
            kidx = draw(st.lists(st.integers(0, 9), max_size=3))
            spec.append((kidx, draw(st.sampled_from(["list", "dict", "ngram", "list", "int", "str", "rawlist", "nparr", "any"])), draw(st.integers(0, 5)), draw(st.lists(st.integers(0, 8), max_size=3))))
        return {"items": mk_items(spec), "n_workers": draw(st.integers(1, 6)), "schedule": {}, "combo": draw(st.sampled_from(cbs)), "items_as": draw(st.sampled_from(["list", "list", "tuple", "generator"])),
                "cb": draw(st.sampled_from(["plain", "kw"])), "ctx": "coop", "sched_seed": draw(st.integers(0, 2**32 - 1)), "policy": draw(st.sampled_from(POLICIES))}

    @given(case=cases())
    def test(case):
        holder["case"] = case
        obs = run_case(case)
        rec.case(case, obs.get("workers_used", 0) >= 2, [f"workers={case['n_workers']}", "interleaved_runs", f"policy={case['policy']}", f"workers_used={min(obs.get('workers_used', 0), 4)}"])

    common.run_given(test, common.derive_seed(seed, "C08-coop", shard), n, holder, rec)
    return rec


# ------------------------------------------------------------------ real spawned runs

REAL_SCRIPT = r"""
import json, os, sys, warnings
warnings.filterwarnings("ignore")
repo, verif, n_workers, side, combo_json = sys.argv[1], sys.argv[2], int(sys.argv[3]), sys.argv[4], sys.argv[5]
sys.path.insert(0, repo); sys.path.insert(0, verif)
if __name__ == "__main__":
    import numpy as np
    from vf import cbmod
    from vf.c08 import mk_items, BASE_SPECS
    import sketchnu.helpers as helpers
    from sketchnu.hyperloglog import HyperLogLog
    combo = json.loads(combo_json)
    items = mk_items(BASE_SPECS[3])
    os.environ["VF_REAL_SPAWN"] = "1"  # inherited by the spawned workers: the callback starts a child process of its own for every other item
    for it in items[::2]:
        it["child"] = True
    kw = {k: v for k, v in combo.items() if v is not None}
    res = helpers.parallel_add(items, cbmod.process_item, n_workers=n_workers, side=side, **kw)
    parts = list(res) if isinstance(res, tuple) else [res]
    out = {"types": [type(p).__name__ for p in parts]}
    for p in parts:
        n = type(p).__name__
        if n == "HyperLogLog":
            out["hll"] = np.array(p.registers).tolist()
        else:
            out[n] = {"n_added": int(p.n_added()), "n_records": int(p.n_records())}
    print("RESULT " + json.dumps(out))
    del res, parts, p
"""


def start_real(n_workers, combo):
    side = tempfile.NamedTemporaryFile(prefix="vf_c08_side_", delete=False).name
    env = dict(os.environ)
    p = subprocess.Popen([sys.executable, "-W", "ignore", "-c", REAL_SCRIPT, common.REPO, common.VERIF_DIR, str(n_workers), side, json.dumps(combo)],
                         stdout=subprocess.PIPE, stderr=subprocess.PIPE, text=True, env=env, start_new_session=True)
    return {"proc": p, "side": side, "n_workers": n_workers, "combo": combo, "t0": time.time()}


def finish_real(h, rec, timeout):
    import signal

    import numpy as np

    from vf.par_common import expected_stream, item_effect
    from sketchnu.hyperloglog import HyperLogLog

    p = h["proc"]
    case = {"real_spawn": True, "n_workers": h["n_workers"], "combo": h["combo"]}
    try:
        out, err = p.communicate(timeout=max(10, timeout - (time.time() - h["t0"])))
    except subprocess.TimeoutExpired:
        os.killpg(p.pid, signal.SIGKILL)
        raise common.HarnessError(f"real spawned parallel_add run (n_workers={h['n_workers']}) did not finish within {timeout}s: inconclusive")
    finally:
        try:
            side = open(h["side"]).read().split("\n")
            os.unlink(h["side"])
        except OSError:
            side = []
    line = [l for l in out.splitlines() if l.startswith("RESULT ")]
    if not line:
        rec.violation(case, f"real spawned parallel_add (n_workers={h['n_workers']}) failed: rc={p.returncode} {err.strip().splitlines()[-1] if err.strip() else ''}", "real-run-failed")
        return
    got = json.loads(line[0][7:])
    items = mk_items(BASE_SPECS[3])
    eff, nrec = expected_stream(items)
    total = sum(v for _, v in eff)
    pairs = [tuple(map(int, l.split())) for l in side if l.strip()]
    delivered = sorted(j for _, j in pairs)
    if delivered != list(range(len(items))):
        rec.violation(case, f"real run: items processed {delivered}, expected each of {len(items)} once", "items-lost-or-duplicated")
    combo = h["combo"]
    if combo.get("hll_args"):
        seq = HyperLogLog(**combo["hll_args"])
        for k, _ in eff:
            seq.add(k)
        if got.get("hll") != np.array(seq.registers).tolist():
            rec.violation(case, "real run: HyperLogLog registers differ from the sequential sketch", "hll-differs-from-sequential")
    for name in ("CountMinLinear", "CountMinLog8", "CountMinLog16", "HeavyHitters"):
        if name in got and (got[name]["n_added"] != total or got[name]["n_records"] != nrec):
            rec.violation(case, f"real run: {name} n_added/n_records = {got[name]}, expected {total}/{nrec}", "real-bookkeeping")
    workers_used = len({pid for pid, _ in pairs})
    rec.case(dict(case, assignment=[[pid, j] for pid, j in pairs]), True, ["real_spawned_runs", f"real_workers_used={workers_used}"])


def run(tier, seed, rec):
    quick = tier == "quick"
    cbs = combos()
    full = next(i for i, c in enumerate(cbs) if c["cms_args"] and c["cms_args"]["cms_type"] == "linear" and c["hh_args"] and c["hll_args"])
    real = []
    if quick:
        real.append(start_real(2, {"cms_args": None, "hh_args": None, "hll_args": {"p": 7, "seed": 5}}))
    else:
        for k in (1, 2, 3, 5):
            real.append(start_real(k, cbs[full] if k != 2 else {"cms_args": None, "hh_args": None, "hll_args": {"p": 7, "seed": 5}}))
    jobs = []
    if quick:
        ns = 8
        jobs += [(0, 4, 3, full, "list", s, ns) for s in range(ns)]  # 360 schedules, all three sketches
        jobs += [(1, 4, 3, -1, "list", s, ns) for s in range(ns)]  # 360 schedules, rotating combinations
        jobs += [(2, 3, 2, ci, ["list", "tuple", "generator"][ci % 3], 0, 1) for ci in range(len(cbs))]  # 24 schedules per combination
        jobs += [(0, 4, 2, full, "generator", 0, 1), (1, 3, 3, full, "tuple", 0, 1), (2, 3, 1, full, "list", 0, 1)]
    else:
        ns = 32
        jobs += [(3, 6, 4, -1, "list", s, ns) for s in range(ns)]  # 60480 schedules
        jobs += [(0, 4, 4, full, "list", s, 4) for s in range(4)]
        jobs += [(1, 4, 3, ci, "list", 0, 1) for ci in range(len(cbs))]
        jobs += [(3, 5, 3, full, "generator", s, 4) for s in range(4)]
    common.pool_merge(_enum_task, jobs, rec)
    if not rec.violations:
        rec.exhaustive.append("all (assignment, per-worker order) schedules of 4 items over 3 workers (quick) / 6 items over 4 workers (thorough) under the synchronous context")
    common.pool_merge(_special_task, [(k, s) for k in (5, 6, 7, 8, 9) for s in ((1, 3) if quick else (0, 1, 3))], rec)
    total, shards = (480, 16) if quick else (8000, 32)
    common.pool_merge(_hyp_shard, [(seed, i, total // shards) for i in range(shards)], rec)
    total, shards = (320, 16) if quick else (6400, 32)
    common.pool_merge(_coop_shard, [(seed, i, total // shards) for i in range(shards)], rec)
    for h in real:
        finish_real(h, rec, 900 if quick else 1800)


def replay(case):
    if case.get("real_spawn"):
        r = common.Recorder()
        finish_real(start_real(case["n_workers"], case["combo"]), r, 1800)
        if r.violations:
            raise Violation(r.violations[0]["msg"], r.violations[0]["signature"])
        return
    run_case(case)
