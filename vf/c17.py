"""C17 - query() is the documented HyperLogLog++ estimator of the registers."""
import math

import numpy as np
from hypothesis import given, strategies as st

from vf import common, models
from vf.common import Violation
from vf.world import _rotate_threads, sut

from sketchnu.hll_constants import bias_data, raw_estimate, sub_algorithm_threshold
from sketchnu.hyperloglog import HyperLogLog

RULE = (
    "Hypothesis-generated register arrays for p in 7..16, assigned with hll.registers[:] = ..., of kinds: 'real' (registers "
    "built by HyperLogLog.add over n keys), 'sim' (index uniform, rank geometric capped at 64-p+1, load 0.01..100 keys/register), "
    "'small' (uniform ranks 0..k), 'const' (all-equal rank r incl. the maximum, optionally one zero register), 'lc_boundary' (V zero "
    "registers = the integers around m*exp(-threshold/m), d in -2..+2, rest random small ranks), 'raw_boundary' (no zero register, "
    "a registers of rank 2 and m-a of rank 3 with a = the integers around the solution of raw==5m, d in -2..+2), 'raw_fine' (no zero register, ranks chosen by binary expansion so that the raw estimate is 5m+delta for delta from -1.5 to +2.5 in steps down to 0.001). Oracle: numpy/"
    "integer model of exactly the stated estimator (evaluated for the assigned array and again after merging a second array into the already-queried sketch) with the shipped tables indexed by p-7; |query-model| <= 1e-9*max(1,model); a case "
    "within 1e-9 relative of a branch boundary is accepted on either branch (counted). Table facts asserted per p: raw_estimate "
    "strictly increasing, raw_estimate[0]-bias[0]==threshold to 1e-6. Non-trivial: the array is not all-zero and not decided by "
    "linear counting alone, or is a boundary array. Distinct = distinct (p, kind, parameters)."
)
ASSUMPTIONS = [
    "the shipped tables (hll_constants.py) are taken as given data; only the stated facts about them are asserted",
    "alpha = 0.7213/(1+1.079/m) as in the HyperLogLog paper for m >= 128",
]

KINDS = ["real", "sim", "sim", "small", "const", "lc_boundary", "lc_boundary", "raw_boundary", "raw_boundary", "raw_fine", "raw_fine"]


def build(case):
    p = case["p"]
    m = 1 << p
    kind = case["kind"]
    rng = np.random.default_rng(case["rs"])
    maxrank = 64 - p + 1
    if kind == "real":
        h = HyperLogLog(p, case["rs"] % (2**64))
        n = int(case["load"] * m)
        n = max(1, min(n, 30000))
        keys = rng.integers(0, 256, size=(n, 1 + case["rs"] % 12), dtype=np.uint8)
        for row in keys:
            h.add(row.tobytes())
        return np.array(h.registers, copy=True)
    if kind == "sim":
        n = max(1, int(case["load"] * m))
        idx = rng.integers(0, m, n)
        rank = np.minimum(rng.geometric(0.5, n), maxrank).astype(np.uint8)
        reg = np.zeros(m, np.uint8)
        np.maximum.at(reg, idx, rank)
        return reg
    if kind == "small":
        return rng.integers(0, case["k"] + 1, m).astype(np.uint8)
    if kind == "const":
        reg = np.full(m, min(case["k"], maxrank), np.uint8)
        if case["zero"]:
            reg[case["rs"] % m] = 0
        return reg
    if kind == "lc_boundary":
        thr = float(sub_algorithm_threshold[p - 7])
        v0 = m * math.exp(-thr / m)
        V = int(math.floor(v0)) + case["d"]
        V = max(1, min(m, V))
        reg = rng.integers(1, case["k"] + 2, m).astype(np.uint8)
        zeros = rng.permutation(m)[:V]
        reg[zeros] = 0
        return reg
    if kind == "raw_boundary":
        alpha = 0.7213 / (1.0 + 1.079 / m)
        a0 = 8.0 * alpha * m / 5.0 - m
        a = int(math.floor(a0)) + case["d"]
        a = max(0, min(m, a))
        reg = np.full(m, 3, np.uint8)
        reg[rng.permutation(m)[:a]] = 2
        return reg
    if kind == "raw_fine":
        # no zero register and a raw estimate placed at 5m + delta with |delta| down to 1e-3: a registers of
        # rank 2, t registers with distinct ranks 4..3+t (binary expansion of the remainder), the rest rank 3
        alpha = 0.7213 / (1.0 + 1.079 / m)
        target = 5.0 * m + case["delta"]
        S = alpha * m * m / target  # required sum of 2^-r
        t = min(30, 64 - p - 4)
        a = int(math.floor((S - (m - t) / 8.0) * 8.0))
        a = max(0, min(m - t, a))
        R = S - (a / 4.0 + (m - a - t) / 8.0)
        ranks = []
        for j in range(4, 4 + t):
            if R >= 2.0 ** (-j):
                ranks.append(j)
                R -= 2.0 ** (-j)
        reg = np.full(m, 3, np.uint8)
        perm = rng.permutation(m)
        reg[perm[:a]] = 2
        for i_, j in enumerate(ranks):
            reg[perm[a + i_]] = j
        return reg
    raise ValueError(kind)


def check_case(case, stats=None):
    p = case["p"]
    reg = build(case)
    ptype = [int, np.uint8, np.int64, np.uint16, np.int8, np.uint64][case["rs"] % 6]
    h = HyperLogLog(ptype(p), 0)
    h.registers[:] = reg
    decoy = HyperLogLog(7 if p != 7 else 13, 3)  # a younger sketch of another precision exists while h is queried
    decoy.add(b"decoy")
    decoy.query()
    _rotate_threads(case["rs"])  # the estimate must not depend on the enabled numba thread count
    got = float(sut(h.query))
    thr = float(sub_algorithm_threshold[p - 7])
    want, branch, margin = models.hllpp_estimate(reg, p, thr, raw_estimate[p - 7], bias_data[p - 7])
    ok = abs(got - want) <= 1e-9 * max(1.0, abs(want))
    if not ok and margin < 1e-9:
        # within float noise of a branch boundary: accept the neighbouring branch
        if stats is not None:
            stats.append("boundary_dead_band")
        ok = True
    if not ok:
        raise Violation(f"p={p} kind={case['kind']} branch={branch}: query()={got!r}, HLL++ model={want!r} (zeros={int((reg == 0).sum())})", f"estimator-{branch}")
    # the estimate must follow the register state when it changes under a sketch that was already
    # queried: merge another sketch in and compare with the model of the registers actually held
    other = HyperLogLog(p, 0)
    other.registers[:] = np.roll(reg, 1 + case["rs"] % 7) if case["kind"] != "const" else np.minimum(reg + (np.arange(len(reg)) % 3 == 0), 64 - p + 1).astype(np.uint8)
    sut(h.merge, other)
    merged = np.array(h.registers, copy=True)
    got2 = float(sut(h.query))
    want2, branch2, margin2 = models.hllpp_estimate(merged, p, thr, raw_estimate[p - 7], bias_data[p - 7])
    if abs(got2 - want2) > 1e-9 * max(1.0, abs(want2)) and margin2 >= 1e-9:
        raise Violation(f"p={p} kind={case['kind']} after merging a second register state into a queried sketch: query()={got2!r}, HLL++ model of the merged registers={want2!r} (first query returned {got!r})", f"estimator-after-merge-{branch2}")
    return branch, reg


@st.composite
def cases(draw):
    kind = draw(st.sampled_from(KINDS))
    case = {"p": draw(st.sampled_from(list(range(7, 17)))), "kind": kind, "rs": draw(st.integers(0, 2**32 - 1))}
    if kind in ("real", "sim"):
        case["load"] = draw(st.sampled_from([0.01, 0.05, 0.2, 0.5, 0.7, 1.0, 1.5, 2.0, 2.5, 3.0, 4.0, 5.0, 6.0, 8.0, 20.0, 100.0]))
    if kind in ("small", "const", "lc_boundary"):
        case["k"] = draw(st.integers(0, 6)) if kind != "const" else draw(st.sampled_from([0, 1, 2, 3, 5, 20, 48, 57, 58]))
    if kind == "const":
        case["zero"] = draw(st.booleans())
    if kind in ("lc_boundary", "raw_boundary"):
        case["d"] = draw(st.integers(-2, 3))
    if kind == "raw_fine":
        case["delta"] = draw(st.sampled_from([-1.5, -0.5, -0.01, -0.001, 0.001, 0.01, 0.25, 0.5, 0.75, 0.99, 0.999, 1.001, 1.01, 1.5, 2.5]))
    return case


def _shard(arg):
    seed, shard, n_examples = arg
    rec = common.Recorder()
    holder = {}

    @given(case=cases())
    def test(case):
        holder["case"] = case
        stats = []
        branch, reg = check_case(case, stats)
        nt = (branch != "linear_counting" and bool(reg.any())) or case["kind"].endswith("boundary")
        rec.case(case, nt, [f"branch={branch}", f"kind={case['kind']}", f"p={case['p']}"] + stats)

    common.run_given(test, common.derive_seed(seed, "C17", shard), n_examples, holder, rec, retry=check_case)
    return rec


def table_facts(rec):
    for i in range(10):
        p = i + 7
        r, b = raw_estimate[i], bias_data[i]
        case = {"table_p": p}
        if not np.all(np.diff(r) > 0):
            rec.violation(case, f"raw_estimate table for p={p} is not strictly increasing", "table-monotone")
        if abs((r[0] - b[0]) - float(sub_algorithm_threshold[i])) > 1e-6 * float(sub_algorithm_threshold[i]):
            rec.violation(case, f"raw_estimate[0]-bias[0]={r[0]-b[0]} does not start at threshold {sub_algorithm_threshold[i]} for p={p}", "table-start")
        rec.notes[f"p{p}_tables_end_at_5m"] = bool(abs((r[-1] - b[-1]) - 5 * (1 << p)) < 1e-6 * 5 * (1 << p))
        rec.case(case, True, ["table_facts"])


def grid(rec):
    """Deterministic part: every p x every boundary offset, both boundaries."""
    for p in range(7, 17):
        for kind in ("lc_boundary", "raw_boundary"):
            for d in range(-2, 4):
                case = {"p": p, "kind": kind, "rs": 1000 + p, "d": d, "k": 2}
                try:
                    branch, reg = check_case(case)
                except Violation as v:
                    rec.violation(case, v.msg, v.signature)
                    continue
                rec.case(case, True, [f"branch={branch}", f"kind={kind}", "grid"])
        for delta in (-0.5, -0.001, 0.001, 0.5, 0.999, 1.001, 1.5):
            case = {"p": p, "kind": "raw_fine", "rs": 2000 + p, "delta": delta}
            try:
                branch, reg = check_case(case)
            except Violation as v:
                rec.violation(case, v.msg, v.signature)
                continue
            rec.case(case, True, [f"branch={branch}", "kind=raw_fine", "grid"])
        for k, zero in [(0, False), (1, False), (1, True), (64 - p + 1, False), (64 - p + 1, True), (3, False), (2, False)]:
            case = {"p": p, "kind": "const", "rs": 7, "k": k, "zero": zero}
            try:
                branch, reg = check_case(case)
            except Violation as v:
                rec.violation(case, v.msg, v.signature)
                continue
            rec.case(case, bool(reg.any()), [f"branch={branch}", "kind=const", "grid"])


def run(tier, seed, rec):
    table_facts(rec)
    grid(rec)
    total, shards = (8000, 16) if tier == "quick" else (48000, 32)
    common.pool_merge(_shard, [(seed, i, total // shards) for i in range(shards)], rec)
    br = {k for k in rec.classes if k.startswith("branch=")}
    need = {"branch=linear_counting", "branch=bias_corrected_with_zeros", "branch=bias_corrected_no_zeros", "branch=raw"}
    if not rec.violations and not need <= br:
        raise common.HarnessError(f"generator starved: branches reached {sorted(br)}")


def replay(case):
    if "table_p" in case:
        r = common.Recorder()
        table_facts(r)
        for v in r.violations:
            if v["case"].get("table_p") == case["table_p"]:
                raise Violation(v["msg"], v["signature"])
        return
    check_case(case)
