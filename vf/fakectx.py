"""Synchronous stand-in for multiprocessing's spawn context (DESIGN 5.4).

helpers.get_context is replaced (test side) by a context whose Queue is an in-memory list
and whose Process.start() runs the target at once, after sending its arguments through
pickle exactly as spawn would (queues travel by reference).  The in-queue hands each worker
the items the SCHEDULE assigns to it, in the schedule's order, then a poison pill.  The real
_fill_queue, _worker, attach_shared_memory, parallel_merging, _merge_worker, SharedMemory
and the whole of parallel_add run unmodified.
"""
import gc
import io
import os
import pickle

import sketchnu.countmin as cm
import sketchnu.heavyhitters as hh
import sketchnu.helpers as helpers
import sketchnu.hyperloglog as hl
from multiprocessing.shared_memory import SharedMemory as _RealSharedMemory

_QUEUES = {}


class Hang(BaseException):
    """parallel_add kept polling: non-termination in logical time"""


class FakeQueue:
    def __init__(self, ctx, maxsize=0):
        self.ctx = ctx
        self.maxsize = maxsize
        self.items = []  # non-None objects put, in order (after a pickle round trip)
        self.pills = 0
        self.closed = False
        self.is_in_queue = False
        self.cursor = {}

    def put(self, obj, *a, **kw):
        if self.closed:
            raise ValueError(f"Queue {self!r} is closed")
        if obj is None:
            self.pills += 1
        else:
            self.items.append(pickle.loads(pickle.dumps(obj)))

    def get(self, *a, **kw):
        if self.closed:
            raise ValueError(f"Queue {self!r} is closed")
        w = self.ctx.current_worker
        if w is None:
            raise RuntimeError("FakeQueue.get outside a worker")
        self.is_in_queue = True
        sched = self.ctx.schedule.get(w, [])
        pos = self.cursor.get(w, 0)
        while pos < len(sched):
            j = sched[pos]
            pos += 1
            if j < len(self.items):
                self.cursor[w] = pos
                self.ctx.delivered.append((w, j))
                return pickle.loads(pickle.dumps(self.items[j]))
        self.cursor[w] = pos
        # items that were put but that the schedule does not mention go to the last worker
        if w == self.ctx.n_workers - 1:
            seen = {j for _, j in self.ctx.delivered}
            for j in range(len(self.items)):
                if j not in seen and all(j not in s for s in self.ctx.schedule.values()):
                    self.ctx.delivered.append((w, j))
                    return pickle.loads(pickle.dumps(self.items[j]))
        if self.ctx.pills_taken >= self.pills:
            raise Hang(f"worker {w} waits for a poison pill that was never put ({self.pills} pills for {self.ctx.n_workers} workers)")
        self.ctx.pills_taken += 1
        return None

    def close(self):
        self.closed = True

    def join_thread(self):
        pass

    def cancel_join_thread(self):
        pass


class _Pickler(pickle.Pickler):
    def persistent_id(self, obj):
        if isinstance(obj, FakeQueue) or getattr(obj, "_vf_by_ref", False):
            _QUEUES[id(obj)] = obj
            return ("fakequeue", id(obj))
        return None


class _Unpickler(pickle.Unpickler):
    def persistent_load(self, pid):
        return _QUEUES[pid[1]]


def _roundtrip(obj):
    buf = io.BytesIO()
    _Pickler(buf, protocol=pickle.HIGHEST_PROTOCOL).dump(obj)
    buf.seek(0)
    return _Unpickler(buf).load()


class FakeProcess:
    def __init__(self, ctx, target=None, args=(), kwargs=None, **_):
        self.ctx = ctx
        self.target = target
        self.args = args
        self.kwargs = kwargs or {}
        self.exitcode = None
        self.name = getattr(target, "__name__", "?")
        self.killed = False

    def start(self):
        name = self.name
        if name == "_log_worker":
            self.exitcode = None  # 'running' until joined; it only drains the log queue
            return
        # what spawn does: pickle target, args and kwargs in the parent (raises here on failure)
        target, args, kwargs = _roundtrip((self.target, self.args, self.kwargs))
        prev = self.ctx.current_worker
        if name == "_worker":
            self.ctx.current_worker = args[0]
            self.ctx.workers_started += 1
        try:
            target(*args, **kwargs)
            self.exitcode = 0
        except Hang:
            raise
        except SystemExit as e:
            self.exitcode = e.code if isinstance(e.code, int) else 1
        except BaseException as e:  # uncaught in the child: the process ends with a non-zero status
            self.exitcode = -9 if type(e).__name__ == "WorkerKilled9" else 1
            self.ctx.child_errors.append((name, repr(e)))
            e.__traceback__ = None
            del e
        finally:
            self.ctx.current_worker = prev
            gc.collect()

    def join(self, timeout=None):
        if self.exitcode is None:
            self.exitcode = -9 if self.killed else 0

    def kill(self):
        self.killed = True
        if self.exitcode is None:
            self.exitcode = -9

    terminate = kill

    def is_alive(self):
        return self.exitcode is None


class FakeContext:
    def __init__(self, schedule, n_workers, max_polls=1000):
        self.schedule = {int(k): list(v) for k, v in schedule.items()}
        self.n_workers = n_workers
        self.current_worker = None
        self.delivered = []
        self.child_errors = []
        self.pills_taken = 0
        self.workers_started = 0
        self.polls = 0
        self.max_polls = max_polls
        self.queues = []
        self.processes = []

    def Queue(self, maxsize=0):
        q = FakeQueue(self, maxsize)
        self.queues.append(q)
        return q

    def Process(self, *a, **kw):
        p = FakeProcess(self, *a, **kw)
        self.processes.append(p)
        return p

    def sleep(self, _secs=0):
        self.polls += 1
        if self.polls > self.max_polls:
            raise Hang(f"parallel_add polled its workers {self.polls} times without finishing")


class RecordingSharedMemory:
    """Records every shared-memory segment created in this process and can make the next attach fail, by wrapping the
    POSIX call below multiprocessing.shared_memory (so it does not matter how, or from which module, the library
    reaches SharedMemory)."""

    created = []
    fail_next_attach = 0
    _real = None

    class _Proxy:
        def __init__(self, real):
            self._real = real

        def shm_open(self, name, flags, *a, **kw):
            if not flags & os.O_CREAT and RecordingSharedMemory.fail_next_attach > 0:
                RecordingSharedMemory.fail_next_attach -= 1
                raise OSError(24, "Too many open files")
            fd = self._real.shm_open(name, flags, *a, **kw)
            if flags & os.O_CREAT:
                RecordingSharedMemory.created.append(name)
            return fd

        def __getattr__(self, k):
            return getattr(self._real, k)

    @classmethod
    def install(cls):
        import multiprocessing.shared_memory as shm_mod

        if cls._real is None:
            cls._real = shm_mod._posixshmem
            shm_mod._posixshmem = cls._Proxy(cls._real)


RecordingSharedMemory.install()


class Patched:
    """with Patched(schedule, n_workers) as ctx: helpers.parallel_add(...)"""

    def __init__(self, schedule, n_workers, cores=None):
        self.ctx = FakeContext(schedule, n_workers)
        self.cores = cores

    def __enter__(self):
        self.saved = (helpers.get_context, helpers.sleep)
        ctx = self.ctx
        helpers.get_context = lambda method=None: ctx
        helpers.sleep = ctx.sleep
        RecordingSharedMemory.created = []
        # the machine's core count is part of the environment: pretend 1, 2 or 64 physical cores
        self.saved_cpu = helpers.psutil.cpu_count
        cores = self.cores
        if cores:
            helpers.psutil.cpu_count = lambda logical=True: cores
        return ctx

    def __exit__(self, *exc):
        helpers.get_context, helpers.sleep = self.saved
        helpers.psutil.cpu_count = self.saved_cpu
        _QUEUES.clear()
        return False


def leaked_segments():
    """names created during the last Patched block that still exist (call after dropping results)"""
    out = []
    for n in RecordingSharedMemory.created:
        if os.path.exists("/dev/shm/" + n.lstrip("/")):
            out.append(n)
    return out


def remove_segments(names):
    for n in names:
        try:
            os.unlink("/dev/shm/" + n.lstrip("/"))
        except OSError:
            pass
