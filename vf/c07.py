"""C07 - HyperLogLog estimate stays within the HLL++ error envelope of the truth."""
import math

import numpy as np

from vf import common, models, refhash
from vf.common import Violation
from vf.world import _rotate_threads, sut

from sketchnu.hll_constants import sub_algorithm_threshold
from sketchnu.hyperloglog import HyperLogLog

RULE = (
    "For each p in 7..16 and each of S sketch seeds (quick 24, thorough 300; seeds and the key stream are functions of VERIF_SEED) "
    "one HyperLogLog is filled incrementally (by add(), update(list) or update(dict), rotating with the seed index; every fourth seed uses a shared-memory sketch; HyperLogLog objects of other precisions are created and used between the queries) with distinct keys of varied length (9..16 bytes: random prefix, counter, random tail) and "
    "queried at every grid point n: log grid (ratio 1.25) from 1 to 12*2^p (quick) / 40*2^p (thorough) plus threshold[p] +- {0,1,2}*m/50, "
    "2.5m, 5m +- {0,1,2}*m/50. Oracles: empty sketch -> exactly 0.0; while m*ln(m/(m-n)) <= threshold[p]: query <= m*ln(m/(m-n)) "
    "(deterministic) and, for the first seed of every p, query == linear counting of the occupied-register count predicted by the "
    "reference hash (1e-12 relative); otherwise |est/n-1| <= 10*sigma for every estimate and |mean_over_seeds(est/n)-1| <= "
    "(1+8/sqrt(S))*sigma, sigma = 1.04/sqrt(2^p). Non-trivial: a (p, seed, n) cell outside the linear-counting regime. Distinct = "
    "distinct (p, sketch seed, n)."
)
ASSUMPTIONS = [
    "the envelope constants (10 sigma per estimate, (1+8/sqrt(S)) sigma for the mean) were calibrated on the pinned tree (DESIGN 7/C07): per-cell sd <= 1.13 sigma, so the false-alarm probability per run is far below 1e-9",
    "keys are distinct by construction (they embed a counter)",
]


def make_keys(seed, n):
    rng = np.random.default_rng(common.derive_seed(seed, "C07-keys"))
    buf = rng.integers(0, 256, size=n * 11 + 16, dtype=np.uint8).tobytes()
    lens = rng.integers(0, 8, size=n)
    keys = []
    pos = 0
    for i in range(n):
        t = int(lens[i])
        keys.append(buf[pos : pos + 4] + i.to_bytes(5, "little") + buf[pos + 4 : pos + 4 + t])
        pos += 11
    return keys


def grid_for(p, nmax_factor):
    m = 1 << p
    thr = int(sub_algorithm_threshold[p - 7])
    pts = set()
    x = 1.0
    while x <= nmax_factor * m:
        pts.add(int(x))
        x = max(x + 1, x * 1.25)
    step = max(1, m // 50)
    for base in (thr, 5 * m):
        for d in (-2, -1, 0, 1, 2):
            pts.add(max(1, base + d * step))
    pts.add(int(2.5 * m))
    pts.add(nmax_factor * m)
    return sorted(q for q in pts if q <= nmax_factor * m)


_KEYS = None


def _task(arg):
    p, hseed, nmax_factor, with_ref = arg[:4]
    mode = arg[4] if len(arg) > 4 else 0
    try:
        return _task_inner(p, hseed, nmax_factor, with_ref, mode)
    except Violation as v:
        return {"p": p, "hseed": hseed, "viol": (-1, v.msg, v.signature), "ests": []}


def _task_inner(p, hseed, nmax_factor, with_ref, mode):
    m = 1 << p
    grid = grid_for(p, nmax_factor)
    shm = mode >= 3  # a quarter of the seeds use a shared-memory sketch (same estimates expected)
    mode = mode % 3
    ptype = [int, np.uint8, np.int64, np.uint16, np.int8, np.uint64][(hseed + p) % 6]  # p as the integer types callers pass
    h = HyperLogLog(ptype(p), hseed, shared_memory=shm)
    out = []
    decoy = HyperLogLog(7 if p != 7 else 16, 1)  # another precision is alive and younger than h
    e0 = sut(h.query)
    if not (e0 == 0.0):
        return {"p": p, "hseed": hseed, "viol": (0, f"empty sketch query()={e0!r}, expected exactly 0.0", "empty-not-zero"), "ests": []}
    thr = float(sub_algorithm_threshold[p - 7])
    pos = 0
    add = h.add
    occupied = set()
    for n in grid:
        if mode == 0:
            for k in _KEYS[pos:n]:
                add(k)
        elif mode == 1:
            sut(h.update, _KEYS[pos:n])
        else:
            sut(h.update, dict.fromkeys(_KEYS[pos:n], 3))
        if with_ref:
            for k in _KEYS[pos:n]:
                if n < m and m * math.log(m / (m - n)) <= thr * 1.0 + 1:
                    occupied.add(refhash.fasthash64(k, hseed) & (m - 1))
        pos = n
        decoy = HyperLogLog(16 if (n + p) % 2 else (8 if p != 8 else 9), n & 0xFFFF)  # sketches of other precisions come and go
        decoy.add(b"x")
        decoy.query()
        _rotate_threads(n)
        est = float(sut(h.query))
        lc_n = m * math.log(m / (m - n)) if n < m else float("inf")
        if lc_n <= thr:
            if est > lc_n * (1 + 1e-12):
                return {"p": p, "hseed": hseed, "viol": (n, f"p={p} n={n}: query()={est} exceeds linear counting of n occupied registers {lc_n}", "above-linear-counting"), "ests": out}
            if with_ref:
                want = m * math.log(m / (m - len(occupied))) if occupied else 0.0
                if abs(est - want) > 1e-12 * max(1.0, want):
                    return {"p": p, "hseed": hseed, "viol": (n, f"p={p} n={n}: query()={est}, linear counting of {len(occupied)} occupied registers (reference hash) is {want}", "linear-counting-exact"), "ests": out}
            out.append((n, est, 0))
        else:
            out.append((n, est, 1))
    return {"p": p, "hseed": hseed, "viol": None, "ests": out}


def run(tier, seed, rec):
    global _KEYS
    quick = tier == "quick"
    S = 24 if quick else 300
    F = 12 if quick else 40
    _KEYS = make_keys(seed, F * (1 << 16))
    tasks = []
    for p in range(16, 6, -1):
        for i in range(S):
            hs = common.derive_seed(seed, "C07-hll", p, i) if i > 2 else [0, 2**64 - 1, 2**32][i]
            tasks.append((p, hs, F, i == 0, i % 3 + (3 if i % 4 == 3 else 0)))
    results = common.pool_map(_task, tasks)
    per = {}
    for r in results:
        p = r["p"]
        if r["viol"]:
            n, msg, sig = r["viol"]
            rec.violation({"p": p, "hseed": r["hseed"], "n": n, "verif_seed": seed, "F": F}, msg, sig)
        sigma = 1.04 / math.sqrt(1 << p)
        for n, est, regime in r["ests"]:
            case = {"p": p, "hseed": r["hseed"], "n": n, "verif_seed": seed, "F": F}
            m = 1 << p
            cls = "regime=linear_counting" if not regime else ("regime=bias_corrected" if n <= 5 * m else "regime=raw")
            rec.bulk(1, 1 if regime else 0, case if (regime and len(rec.samples) < 4) else None, {cls: 1})
            if regime:
                dev = est / n - 1.0
                if abs(dev) > 10 * sigma:
                    rec.violation(case, f"p={p} n={n} seed={r['hseed']}: estimate {est} deviates {dev/sigma:.2f} sigma from n (limit 10)", "single-estimate")
                per.setdefault((p, n), []).append(dev)
    worst = 0.0
    for (p, n), devs in sorted(per.items()):
        if len(devs) < S:
            continue
        sigma = 1.04 / math.sqrt(1 << p)
        mean = sum(devs) / len(devs)
        lim = (1.0 + 8.0 / math.sqrt(S)) * sigma
        worst = max(worst, abs(mean) / sigma)
        rec.count("mean_cells")
        if abs(mean) > lim:
            rec.violation({"p": p, "n": n, "verif_seed": seed, "S": S, "F": F, "mean_cell": True}, f"p={p} n={n}: mean relative error over {S} seeds is {mean/sigma:.2f} sigma (limit {lim/sigma:.2f})", "mean-bias")
    rec.notes["worst_abs_mean_in_sigma"] = round(worst, 3)
    rec.notes["seeds_per_cell"] = S
    _KEYS = None


def replay(case):
    """Re-run the (p, seed) pass the case came from (keys are a function of verif_seed)."""
    global _KEYS
    F = case.get("F", 12)
    _KEYS = make_keys(case["verif_seed"], F * (1 << 16) if case["p"] == 16 else F * (1 << case["p"]) + 16)
    if case.get("mean_cell"):
        S = case["S"]
        p = case["p"]
        devs = []
        for i in range(S):
            hs = common.derive_seed(case["verif_seed"], "C07-hll", p, i) if i > 2 else [0, 2**64 - 1, 2**32][i]
            r = _task((p, hs, F, False, i % 3 + (3 if i % 4 == 3 else 0)))
            if r["viol"]:
                raise Violation(r["viol"][1], r["viol"][2])
            devs += [est / n - 1.0 for n, est, regime in r["ests"] if n == case["n"] and regime]
        sigma = 1.04 / math.sqrt(1 << p)
        mean = sum(devs) / len(devs)
        if abs(mean) > (1.0 + 8.0 / math.sqrt(S)) * sigma:
            raise Violation(f"p={p} n={case['n']}: mean relative error {mean/sigma:.2f} sigma", "mean-bias")
        return
    r = max((_task((case["p"], case["hseed"], F, True, mode)) for mode in (0, 1, 2, 3, 4, 5)), key=lambda r: r["viol"] is not None)
    if r["viol"]:
        raise Violation(r["viol"][1], r["viol"][2])
    sigma = 1.04 / math.sqrt(1 << case["p"])
    for n, est, regime in r["ests"]:
        if regime and abs(est / n - 1.0) > 10 * sigma:
            raise Violation(f"p={case['p']} n={n}: estimate {est} deviates more than 10 sigma", "single-estimate")
