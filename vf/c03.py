"""C03 - heavy hitters never over-count and never report a key that was not added."""
from hypothesis import strategies as st

from vf import common, machines
from vf.common import CEIL
from vf.hh_common import CFG, NoOverCount, hh_universe

RULE = (
    "Hypothesis rule-based machine over 4 HeavyHitters sketches of one shape (width from {1,2,3,4,8,16} weighted to 1-3, depth 1..4, "
    "max_key_len 1..16, phi default or explicit); keys over the alphabet {00,'a','b',ff} with lengths 0..max_key_len+3 so that NUL-suffixed "
    "aliases (k, k+00), all-NUL keys and over-long keys sharing a max_key_len prefix occur in every case; rules add(i,k,v) with v in "
    "{0,1,2,3,5,100,CEIL-1,CEIL,2^32+5,...}, update(list), update(dict), add_ngram, update_ngram, merge(i,j) in any order, save/load. "
    "After every step, for each touched sketch: every (key,count) of query(10^9,t), t in {0,1,None}, has count <= true[key] (true count of "
    "the byte string truncated to max_key_len; 0 for never-added keys), and hh[u] <= true[u] for every u of the universe and every added "
    "key (over-long lookups may be rejected). Non-trivial: an all-NUL key or a NUL-alias pair was added, or a positive key shares its cell "
    "in every row with another positive key. Distinct = distinct (configuration, step list)."
)
ASSUMPTIONS = [
    "key identity = first max_key_len bytes compared as a byte string (multiset model keyed by the truncated bytes)",
    "threshold None is only used while phi*n_added < 2^32 (documented threshold type is a 32-bit count)",
]

VALUES = st.one_of(st.sampled_from([0, 1, 1, 1, 2, 3, 5, 100]), st.integers(0, 12), st.sampled_from([CEIL - 1, CEIL, 2**32 + 5, 2**31, 7, 255, 256, 257, 65535, 65536, 65537]))


def _draw_universe(self, data, cfg):
    return hh_universe(data, cfg)


def _shard(arg):
    seed, shard, n_examples, steps = arg
    rec = common.Recorder()
    holder = {}
    M = machines.make_machine("C03Machine", NoOverCount, rec, holder, SELF_MERGE=True, CFG=CFG, N=4, VALUES=VALUES, MAXKEY=19, draw_universe=_draw_universe)
    common.run_machine(M, common.derive_seed(seed, "C03", shard), n_examples, steps, holder, rec, retry=lambda c_: machines.replay_trace(c_, NoOverCount))
    return rec


def run(tier, seed, rec):
    n_ex, steps, shards = (100, 40, 16) if tier == "quick" else (500, 50, 32)
    common.pool_merge(_shard, [(seed, i, n_ex, steps) for i in range(shards)], rec)


def replay(case):
    machines.replay_trace(case, NoOverCount)
