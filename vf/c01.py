"""C01 - linear count-min: min(true, CEIL) <= estimate <= classic collision bound, on every history."""
import itertools
from collections import Counter, defaultdict

import numpy as np
from hypothesis import strategies as st

from vf import common, machines
from vf import strategies as vs
from vf.common import CEIL, Violation
from vf.world import CELLMAP, World, sut

from sketchnu.countmin import CountMinLinear

RULE = (
    "Hypothesis rule-based machine over 4 CountMinLinear sketches of one shape (width from {1,2,3,4,8,16,64} weighted to "
    "small, depth 1..8): rules add(i,k,v) with v in {0,1,2,3,small,CEIL-2..CEIL+2,2^31,2^33,2^40}, update(list), update(dict), "
    "add_ngram, update_ngram, merge(i,j) i!=j in any order (any merge tree), save/load through the class loader and "
    "countmin.load (with and without shared memory); keys from a universe of 3..11 byte strings (NUL, NUL-suffixed aliases, "
    ">=0x80, up to 64 bytes). After every step, for every key of the universe and every key ever added (incl. ngram windows): "
    "min(true,CEIL) <= query <= min over rows of the summed true counts of the keys sharing the counter (cell map read from a "
    "probe sketch), sketch[k]==query(k). Plus exhaustive DFS of all histories up to length L over {add(s,k,v): 2 sketches x 3 keys x "
    "2 values} + {merge 0<-1, merge 1<-0} for 4 shapes and two value sets. Non-trivial: the history merges two non-empty "
    "sketches, or a key shares its counter in every row with another positive key, or a counter is within 3 of 2^32-1. "
    "Distinct = distinct (configuration, step list)."
)
ASSUMPTIONS = [
    "the counter a key owns in each row is read from a probe sketch after one add (not from the hash)",
    "multiset model of true counts (merge = multiset sum); true counts are unbounded Python ints",
]

WIDTHS = [1, 1, 2, 2, 3, 3, 4, 8, 16, 64]
CFG = st.builds(lambda w, d: {"kind": "linear", "width": w, "depth": d}, st.sampled_from(WIDTHS), st.one_of(st.integers(1, 8), st.integers(1, 8), st.integers(1, 8), st.integers(1, 8), st.integers(1, 8), st.integers(1, 8), st.sampled_from([65, 66, 130])))


class Checker:
    def __init__(self, world, case):
        self.w = world
        self.U = list(case.get("U", []))
        self.nt = set()
        self.last_q = {}

    def check_sketch(self, i):
        w = self.w
        sk = w.sk[i]
        true = w.true[i]
        cfg = w.cfg
        allkeys = sorted(set(self.U) | set(true))
        # start each sweep with the key this sketch object was asked for last (a lookup memo that
        # survives a state change would answer it from the cache), then rotate the rest
        last = self.last_q.get(i)
        if last in allkeys:
            j = allkeys.index(last)
            allkeys = allkeys[j:] + allkeys[:j]
        self.last_q[i] = allkeys[-1]
        cells = {k: CELLMAP.cells(cfg, k) for k in allkeys}
        depth = cfg["depth"]
        W = [defaultdict(int) for _ in range(depth)]
        npos = [defaultdict(int) for _ in range(depth)]
        for k, t in true.items():
            if t > 0:
                for r, c in enumerate(cells[k]):
                    W[r][c] += t
                    npos[r][c] += 1
        for k in allkeys:
            q = int(sut(sk.query, k))
            q2 = int(sut(sk.__getitem__, k))
            t = true.get(k, 0)
            lo = min(t, CEIL)
            hi = min(CEIL, min(W[r][cells[k][r]] for r in range(depth)))
            if q2 != q:
                raise Violation(f"sketch[{k!r}]={q2} != query={q}", "getitem")
            if q < lo:
                raise Violation(f"sketch {i}: query({k!r})={q} below min(true,CEIL)={lo}", "underestimate")
            if q > hi:
                raise Violation(f"sketch {i}: query({k!r})={q} above collision bound {hi} (true={t})", "overestimate")
            if t > 0 and all(npos[r][cells[k][r]] >= 2 for r in range(depth)):
                self.nt.add("all_rows_shared")
            if t > 0 and any(npos[r][cells[k][r]] == 1 for r in range(depth)):
                self.nt.add("collision_free_row_exact")
        if int(sk.cms.max()) >= CEIL - 3:
            self.nt.add("near_ceiling")

    def __call__(self, touched, step):
        if step["op"] == "merge" and step["i"] != step["j"]:
            # both operands non-empty *before* the merge <=> merged total > each part
            i, j = step["i"], step["j"]
            if self.w.total[j] > 0 and self.w.total[i] > self.w.total[j]:
                self.nt.add("merge_nonempty")
        # every sketch after every step: an operation on one sketch must not leak into another
        for i in range(self.w.n):
            self.check_sketch(i)

    def flags(self):
        nt = bool(self.nt & {"merge_nonempty", "all_rows_shared", "near_ceiling"})
        return nt, sorted(self.nt | self.w.flags)


def _shard(arg):
    seed, shard, n_examples, steps = arg
    rec = common.Recorder()
    holder = {}
    M = machines.make_machine("C01Machine", Checker, rec, holder, SELF_MERGE=True, CFG=CFG, N=4, VALUES=vs.multiplicities(True, huge=True))
    common.run_machine(M, common.derive_seed(seed, "C01", shard), n_examples, steps, holder, rec, retry=lambda c_: machines.replay_trace(c_, Checker))
    return rec


# ------------------------------------------------------------------ exhaustive part


def pick_keys(width, depth):
    """3 keys such that (if the shape allows) two collide in one row and not in another."""
    cfg = {"kind": "linear", "width": width, "depth": depth}
    cands = [bytes([b]) for b in range(1, 60)] + [b"", b"\0", b"a\0"]
    best = None
    for trio in itertools.combinations(cands[:24], 3):
        cells = [CELLMAP.cells(cfg, k) for k in trio]
        score = 0
        for a, b in itertools.combinations(range(3), 2):
            same = [cells[a][r] == cells[b][r] for r in range(depth)]
            if any(same) and not all(same):
                score += 2
            elif all(same):
                score += 1
        if best is None or score > best[0]:
            best = (score, trio)
        if score >= 3:
            break
    return list(best[1])


def _enum_shard(arg):
    width, depth, values, L, first = arg
    rec = common.Recorder()
    cfg = {"kind": "linear", "width": width, "depth": depth}
    keys = pick_keys(width, depth)
    ops = [("add", s, k, v) for s in (0, 1) for k in range(3) for v in values] + [("merge", 0, 1), ("merge", 1, 0)]
    sks = [CountMinLinear(width, depth), CountMinLinear(width, depth)]
    cells = [CELLMAP.cells(cfg, k) for k in keys]
    count = [0, 0]  # nodes, nontrivial nodes
    sample = []

    def check(models, path):
        for i in (0, 1):
            true = models[i]
            for ki, k in enumerate(keys):
                q = int(sks[i].query(k))
                lo = min(true[ki], CEIL)
                hi = CEIL
                for r in range(depth):
                    s = sum(true[kj] for kj in range(3) if cells[kj][r] == cells[ki][r])
                    hi = min(hi, s)
                if not (lo <= q <= hi):
                    case = {"cfg": cfg, "n": 2, "U": keys, "steps": [_step(o, keys) for o in path]}
                    rec.violation(case, f"enumerated history: sketch {i} query({k!r})={q} outside [{lo},{hi}]", "underestimate" if q < lo else "overestimate")
                    return False
        return True

    def dfs(models, path, depth_left):
        for oi, op in enumerate(ops):
            if not path and oi != first:
                continue
            snap = [(s.cms.copy(), s.n_added_records.copy()) for s in sks]
            if op[0] == "add":
                _, s, k, v = op
                sks[s].add(keys[k], v)
                nm = [list(models[0]), list(models[1])]
                nm[s][k] += v
                nt = False
            else:
                _, a, b = op
                sks[a].merge(sks[b])
                nm = [list(models[0]), list(models[1])]
                nt = sum(nm[a]) > 0 and sum(nm[b]) > 0
                for k in range(3):
                    nm[a][k] += models[b][k]
            path.append(op)
            count[0] += 1
            nt = nt or any(m >= CEIL - 3 for mm in nm for m in mm)
            if nt:
                count[1] += 1
                if len(sample) < 1:
                    sample.append({"cfg": cfg, "U": keys, "steps": [_step(o, keys) for o in path]})
            ok = check(nm, path)
            if ok and depth_left > 1:
                ok = dfs(nm, path, depth_left - 1)
            path.pop()
            for s, (c, n) in zip(sks, snap):
                np.copyto(s.cms, c)
                np.copyto(s.n_added_records, n)
            if not ok:
                return False
        return True

    dfs([[0, 0, 0], [0, 0, 0]], [], L)
    # every node is a distinct history (path); non-trivial = path whose last op is a merge of two
    # non-empty sketches or that has a count within 3 of the ceiling
    rec.bulk(count[0], count[1], sample[0] if sample else None, {"enumerated_histories": count[0]})
    return rec


def _step(op, keys):
    if op[0] == "add":
        return {"op": "add", "i": op[1], "k": keys[op[2]], "v": op[3]}
    return {"op": "merge", "i": op[1], "j": op[2]}


def run(tier, seed, rec):
    quick = tier == "quick"
    n_ex, steps, shards = (125, 50, 16) if quick else (600, 50, 32)
    common.pool_merge(_shard, [(seed, i, n_ex, steps) for i in range(shards)], rec)
    L = 4 if quick else 5
    jobs = []
    for (w, d) in [(1, 1), (2, 1), (2, 2), (3, 2)]:
        for values in ([1, 2], [1, CEIL - 1, CEIL]):
            nops = 2 * 3 * len(values) + 2
            LL = L if len(values) == 2 else L - 1
            for first in range(nops):
                jobs.append((w, d, values, LL, first))
    common.pool_merge(_enum_shard, jobs, rec)
    if not rec.violations:
        rec.exhaustive.append(
            f"all histories of length <= {L} over add(2 sketches x 3 keys x v in {{1,2}}) + merge(0<-1,1<-0), and of length <= {L-1} with v in {{1,CEIL-1,CEIL}}, for shapes (1,1),(2,1),(2,2),(3,2)"
        )


def replay(case):
    machines.replay_trace(case, Checker)
