"""Cooperative-thread stand-in for multiprocessing's spawn context: real interleavings, owned schedule.

Unlike vf/fakectx.py (which runs every process to completion at start()), here every
Process is a real thread, queues are bounded and block, and a scheduler hands a single
baton around: exactly one thread (the parent included) runs at a time and control changes
hands only at scheduling points (Queue.put/get, sleep, Process.start/join, process exit).
Which runnable thread continues is decided by a seeded chooser, so an execution is a pure
function of (case, schedule seed, policy).  If no thread can run, that is a deadlock - the
real parallel_add would hang - and Hang is raised in the parent.

kill() follows process semantics: the victim unwinds at its next scheduling point (also when
it is blocked) and ends with exit status -9.  Queue.close() is per process, as in
multiprocessing (closing the parent's end does not stop children).
"""
import gc
import queue as _queue
import random
import threading

import sketchnu.countmin as cm
import sketchnu.heavyhitters as hh
import sketchnu.helpers as helpers
import sketchnu.hyperloglog as hl
from vf.fakectx import Hang, RecordingSharedMemory, _roundtrip
import pickle


class Killed(BaseException):
    pass


class Abort(BaseException):
    pass


class Task:
    def __init__(self, sched, name, tid):
        self.sched = sched
        self.name = name
        self.tid = tid
        self.go = threading.Semaphore(0)
        self.done = False
        self.killed = False
        self.wait = None  # predicate; None = runnable
        self.exitcode = None
        self.thread = None
        self.worker_id = None


class Scheduler:
    def __init__(self, seed, policy="random", max_switches=200000):
        self.rnd = random.Random(seed)
        self.policy = policy
        self.tasks = []
        self.parent = Task(self, "parent", 0)
        self.tasks.append(self.parent)
        self.current = self.parent
        self.abort = False
        self.switches = 0
        self.max_switches = max_switches
        self.hang = None
        self.parent_alone = 0
        self.trace = []

    # -- choosing
    def runnable(self):
        out = []
        for t in self.tasks:
            if t.done:
                continue
            if t.killed or t.wait is None or t.wait():
                out.append(t)
        return out

    def choose(self, cands):
        if len(cands) == 1:
            return cands[0]
        p = self.policy
        if p == "random":
            return self.rnd.choice(cands)
        if p == "parent_last":  # children run as far as they can before the parent looks again
            ch = [t for t in cands if t is not self.parent]
            return self.rnd.choice(ch) if ch else cands[0]
        if p == "parent_first":  # the parent polls eagerly
            return self.parent if self.parent in cands and self.rnd.random() < 0.8 else self.rnd.choice(cands)
        if p == "filler_slow":
            ch = [t for t in cands if t.name != "_fill_queue"]
            return self.rnd.choice(ch) if ch and self.rnd.random() < 0.9 else self.rnd.choice(cands)
        if p == "low_worker_first":
            ws = sorted((t for t in cands if t.name == "_worker"), key=lambda t: t.worker_id)
            return ws[0] if ws and self.rnd.random() < 0.85 else self.rnd.choice(cands)
        return self.rnd.choice(cands)

    # -- the baton
    def switch(self):
        """called by the running task at a scheduling point"""
        me = self.current
        if self.abort and me is not self.parent:
            raise Abort()
        self.switches += 1
        if self.switches > self.max_switches:
            self._deadlock(f"more than {self.max_switches} scheduling points without finishing")
        cands = self.runnable()
        if not cands:
            self._deadlock("no process can make progress: " + ", ".join(f"{t.name}{'' if t.worker_id is None else t.worker_id}" for t in self.tasks if not t.done))
        # the parent polling on and on while every other live process is blocked for good is a hang as well
        if len(cands) == 1 and cands[0] is self.parent and me is self.parent and any(not t.done for t in self.tasks if t is not self.parent):
            self.parent_alone += 1
            if self.parent_alone > 2000:
                self._deadlock("the parent keeps polling while no other process can make progress: " + ", ".join(f"{t.name}{'' if t.worker_id is None else t.worker_id}" for t in self.tasks if not t.done and t is not self.parent))
        else:
            self.parent_alone = 0
        nxt = self.choose(cands)
        if nxt is not me:
            self.current = nxt
            nxt.go.release()
            me.go.acquire()
            if self.abort and me is not self.parent:
                raise Abort()
        if me.killed and me is not self.parent:
            raise Killed()
        if self.hang and me is self.parent:
            raise Hang(self.hang)

    def _deadlock(self, why):
        self.hang = why
        self.abort = True
        me = self.current
        if me is self.parent:
            raise Hang(why)
        # hand the baton to the parent so that it raises, and stop this thread
        self.current = self.parent
        self.parent.go.release()
        raise Abort()

    def block_until(self, pred):
        me = self.current
        me.wait = pred
        try:
            while True:
                self.switch()
                if pred():
                    return
        finally:
            me.wait = None

    def finish(self, task):
        """a child task ended: pass the baton on without waiting for it back"""
        task.done = True
        if self.abort:
            return
        cands = self.runnable()
        if not cands:
            self.hang = "no process can make progress after a child exited"
            self.abort = True
            self.current = self.parent
            self.parent.go.release()
            return
        nxt = self.choose(cands)
        self.current = nxt
        nxt.go.release()

    def shutdown(self):
        self.abort = True
        for t in self.tasks:
            if t is not self.parent and not t.done:
                t.go.release()
        for t in self.tasks:
            if t.thread is not None:
                t.thread.join(timeout=5)


class CoopQueue:
    _vf_by_ref = True  # travels to 'child processes' by reference, like a real multiprocessing queue handle

    def __init__(self, ctx, maxsize=0):
        self.ctx = ctx
        self.maxsize = maxsize
        self.buf = []
        self.items = []  # every non-None object ever put (for the exactly-once oracle)
        self.pills = 0
        self.closed_by = set()
        self.is_in_queue = False

    def _check_open(self):
        if self.ctx.sched.current.tid in self.closed_by:
            raise ValueError(f"Queue {self!r} is closed")

    def _may_time_out(self, a, kw, blocked):
        """block=False, or a timeout: when the operation cannot proceed at once the scheduler decides whether the
        consumer/producer is slow enough for it to give up (always a possible schedule: callbacks may take any time)."""
        block = a[0] if a else kw.get("block", True)
        timeout = a[1] if len(a) > 1 else kw.get("timeout")
        if block and timeout is None:
            return False
        s = self.ctx.sched
        if not block:
            return True
        if s.rnd.random() < 0.5:
            return False
        for _ in range(2):  # the others get a little time first
            s.switch()
            if not blocked():
                return False
        return True

    def put(self, obj, *a, **kw):
        self._check_open()
        s = self.ctx.sched
        s.switch()
        if self.maxsize and len(self.buf) >= self.maxsize:
            if self._may_time_out(a, kw, lambda: len(self.buf) >= self.maxsize):
                self.ctx.timeouts += 1
                raise _queue.Full()
            s.block_until(lambda: len(self.buf) < self.maxsize)
        self._check_open()
        obj = pickle.loads(pickle.dumps(obj))
        if obj is None:
            self.pills += 1
        else:
            self.items.append(obj)
        self.buf.append(obj)

    def get(self, *a, **kw):
        self._check_open()
        s = self.ctx.sched
        s.switch()
        if not self.buf:
            if self._may_time_out(a, kw, lambda: not self.buf):
                self.ctx.timeouts += 1
                raise _queue.Empty()
            s.block_until(lambda: bool(self.buf))
        self._check_open()
        obj = self.buf.pop(0)
        t = s.current
        if t.name == "_worker":
            self.is_in_queue = True
            if obj is not None:
                self.ctx.delivered.append((t.worker_id, len(self.ctx.delivered_objs)))
                self.ctx.delivered_objs.append(obj)
        return obj

    def put_nowait(self, obj):
        return self.put(obj, False)

    def get_nowait(self):
        return self.get(False)

    def empty(self):
        return not self.buf

    def full(self):
        return bool(self.maxsize) and len(self.buf) >= self.maxsize

    def qsize(self):
        return len(self.buf)

    def close(self):
        self.closed_by.add(self.ctx.sched.current.tid)

    def join_thread(self):
        pass

    def cancel_join_thread(self):
        pass


class CoopProcess:
    def __init__(self, ctx, target=None, args=(), kwargs=None, **_):
        self.ctx = ctx
        self.target = target
        self.args = args
        self.kwargs = kwargs or {}
        self.name = getattr(target, "__name__", "?")
        self.task = None

    @property
    def exitcode(self):
        return None if self.task is None or not self.task.done else self.task.exitcode

    def start(self):
        s = self.ctx.sched
        target, args, kwargs = _roundtrip((self.target, self.args, self.kwargs))
        t = Task(s, self.name, len(s.tasks))
        if self.name == "_worker":
            t.worker_id = args[0]
        self.task = t

        def body():
            t.go.acquire()
            code = 0
            try:
                if s.abort:
                    raise Abort()
                if t.killed:
                    raise Killed()
                target(*args, **kwargs)
            except Killed:
                code = -9
            except Abort:
                code = -15
            except SystemExit as e:
                code = e.code if isinstance(e.code, int) else 1
            except BaseException as e:  # uncaught in the child: non-zero exit status
                code = -9 if type(e).__name__ == "WorkerKilled9" else 1
                self.ctx.child_errors.append((self.name, repr(e)))
                e.__traceback__ = None
            finally:
                t.exitcode = code
                gc.collect()
                s.finish(t)

        t.thread = threading.Thread(target=body, daemon=True)
        s.tasks.append(t)
        t.thread.start()
        s.switch()

    def join(self, timeout=None):
        if self.task is None:
            return
        s = self.ctx.sched
        if not self.task.done:
            s.block_until(lambda: self.task.done)

    def kill(self):
        if self.task is not None and not self.task.done:
            self.task.killed = True

    terminate = kill

    def is_alive(self):
        return self.task is not None and not self.task.done


class CoopContext:
    def __init__(self, seed, policy, n_workers):
        self.sched = Scheduler(seed, policy)
        self.n_workers = n_workers
        self.delivered = []
        self.delivered_objs = []
        self.child_errors = []
        self.queues = []
        self.processes = []
        self.polls = 0
        self.timeouts = 0
        self.max_polls = 100000  # backstop only: hangs are recognised as deadlocks (see Scheduler.switch)

    def Queue(self, maxsize=0):
        q = CoopQueue(self, maxsize)
        self.queues.append(q)
        return q

    def Process(self, *a, **kw):
        p = CoopProcess(self, *a, **kw)
        self.processes.append(p)
        return p

    def sleep(self, _secs=0):
        self.polls += 1
        if self.polls > self.max_polls:
            raise Hang(f"parallel_add polled its workers {self.polls} times without finishing")
        self.sched.switch()


class Patched:
    """with Patched(seed, policy, n_workers) as ctx: helpers.parallel_add(...)"""

    def __init__(self, seed, policy, n_workers, cores=None):
        self.ctx = CoopContext(seed, policy, n_workers)
        self.cores = cores

    def __enter__(self):
        import logging

        lg = logging.getLogger(helpers.__name__)  # the log worker really runs here; keep its output out of the check's
        if not lg.handlers:
            lg.addHandler(logging.NullHandler())
        lg.propagate = False
        self.saved = (helpers.get_context, helpers.sleep)
        ctx = self.ctx
        helpers.get_context = lambda method=None: ctx
        helpers.sleep = ctx.sleep
        RecordingSharedMemory.created = []
        from vf import cbmod

        def _yield():  # the callback "takes time": a scheduling point inside every callback call of a worker
            if ctx.sched.current is not ctx.sched.parent:
                ctx.sched.switch()

        cbmod.yield_hook = _yield
        # the machine's core count is part of the environment: pretend 1, 2 or 64 physical cores
        self.saved_cpu = helpers.psutil.cpu_count
        cores = self.cores
        if cores:
            helpers.psutil.cpu_count = lambda logical=True: cores
        return ctx

    def __exit__(self, *exc):
        try:
            self.ctx.sched.shutdown()
        finally:
            from vf import cbmod

            cbmod.yield_hook = None
            helpers.get_context, helpers.sleep = self.saved
            helpers.psutil.cpu_count = self.saved_cpu
        return False
