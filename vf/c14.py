"""C14 - row hashes are independent, so depth buys the documented exp(-depth) bound."""
import itertools
import math

import numpy as np

from vf import common
from vf.common import Violation
from vf.world import sut

from sketchnu.countmin import CountMinLinear, CountMinLog8, CountMinLog16
from sketchnu.heavyhitters import HeavyHitters

RULE = (
    "(1) Zipf(1) streams (seed-derived): K in {5000,10000,20000} distinct random keys of varied length (1..72 bytes, arbitrary byte values), total "
    "N=2*10^5, inserted as add(key,count) in shuffled order into CountMinLinear(width in {32,33,48,51,64,85,100,128}, depth 8); oracle: the number of keys with "
    "query-true > e*N/width is at most floor(K*exp(-8)), N = n_added(); three more streams per pass use structured key families (see 2). (2) 20000 random keys of varied length (1..72 bytes); the column each key "
    "owns in each row is read from a probe sketch (one add to an empty sketch) for count-min linear/log16/log8 and heavy hitters at widths 16 (and "
    "7, 9, 10, 12, 15, 17, 51, 64) and depths 2..8; oracle: for every pair of rows every cell of the width x width joint histogram and every marginal lies inside the "
    "exact two-sided Binomial acceptance interval at level 1e-14 per test (lgamma-computed; total false-alarm budget < 1e-9 per run). The same "
    "test runs on 20000 distinct structured keys (8 common prefixes of 0/8/16 bytes x 64 four-byte stems, half with the top bit set in the last "
    "byte, x 1-3 random bytes: families that differ only in their last bytes, the shape of short binary records) for linear/hh/log8. Equal or "
    "correlated rows put ~n/width keys on the diagonal or leave cells empty. Non-trivial: a stream with >= 1 key heavier than e*N/width; a row "
    "pair. Distinct = distinct (stream seed, K, width) / (class, width, depth, row pair)."
)
ASSUMPTIONS = [
    "keys are i.i.d. random byte strings, so under independent uniform row hashes each joint cell count is Binomial(n, 1/width^2)",
    "the structured key families are distinct keys, and the reference FastHash mixes every input byte into all 64 bits, so the same Binomial model is used for them (quiet at 10 seeds on the unchanged tree)",
    "single-row exceedance of the documented bound measured at 3-5.6% on the pinned tree, i.e. ~1e-10 per key for 8 independent rows",
]


def rand_keys(rng, n, maxlen=72):
    lens = rng.integers(1, maxlen + 1, n)
    buf = rng.integers(0, 256, int(lens.sum()) + 8, dtype=np.uint8).tobytes()
    out, pos, seen = [], 0, set()
    for i in range(n):
        k = buf[pos : pos + int(lens[i])]
        pos += int(lens[i])
        if k in seen:
            k = k + i.to_bytes(4, "little")
        seen.add(k)
        out.append(k)
    return out


def binom_interval(n, p, alpha):
    """[lo, hi] such that P(X < lo) <= alpha/2 and P(X > hi) <= alpha/2 for X ~ Binomial(n, p)."""
    logp, logq = math.log(p), math.log1p(-p)

    def logpmf(k):
        return math.lgamma(n + 1) - math.lgamma(k + 1) - math.lgamma(n - k + 1) + k * logp + (n - k) * logq

    # lower tail
    acc, lo = 0.0, 0
    for k in range(0, n + 1):
        acc += math.exp(logpmf(k))
        if acc > alpha / 2:
            lo = k
            break
    acc, hi = 0.0, n
    mean = int(n * p)
    for k in range(n, mean, -1):
        acc += math.exp(logpmf(k))
        if acc > alpha / 2:
            hi = k
            break
    return lo, hi


def _stream_task(arg):
    seed, K, width = arg[:3]
    keyset = arg[3] if len(arg) > 3 else "random"
    rec = common.Recorder()
    rng = np.random.default_rng(seed)
    keys = stem_keys(rng, K) if keyset == "stems" else rand_keys(rng, K)
    N = 200000
    H = sum(1.0 / i for i in range(1, K + 1))
    counts = [max(1, int(round(N / (i * H)))) for i in range(1, K + 1)]
    order = rng.permutation(K)
    sk = CountMinLinear(width, 8)
    for j in order:
        sut(sk.add, keys[j], counts[j])
    Nn = int(sk.n_added())
    bound = math.e * Nn / width
    bad = 0
    worst = None
    for k, c in zip(keys, counts):
        q = int(sut(sk.query, k))
        if q - c > bound:
            bad += 1
            worst = worst or (k, c, q)
    allowed = int(math.floor(K * math.exp(-8)))
    case = {"stream_seed": int(seed), "K": K, "width": width, "depth": 8, "keyset": keyset}
    heavy = sum(1 for c in counts if c > bound)
    if bad > allowed:
        rec.violation(case, f"width={width} depth=8 K={K} N={Nn}: {bad} keys exceed true + e*N/width = {bound:.0f} (allowed {allowed} = floor(K*exp(-8))); e.g. key {worst[0][:12]!r}... true {worst[1]} estimate {worst[2]}", "depth-bound")
    rec.case(case, heavy >= 1, ["zipf_streams", f"stream_keys_{keyset}", f"keys_exceeding={bad}"])
    return rec


CLS = {"linear": lambda w, d: CountMinLinear(w, d), "log16": lambda w, d: CountMinLog16(w, d), "log8": lambda w, d: CountMinLog8(w, d), "hh": lambda w, d: HeavyHitters(w, d, 72)}
_KEYS2 = None
_KEYS2_SEED = None
_KEYS3 = None


def stem_keys(rng, n):
    """Distinct structured keys: one of 8 common prefixes (0, 8 or 16 bytes, so the rest is the hash's tail), one of 64 four-byte
    stems (half of them with the top bit set in their last byte) and 1-3 random bytes: families of keys that differ only in their
    last bytes, the shape of short binary records."""
    pre = [b""] * 4 + [rng.integers(0, 256, 8 * int(j), dtype=np.uint8).tobytes() for j in (1, 1, 2, 2)]
    stems = []
    for i in range(64):
        b = bytearray(rng.integers(0, 256, 4, dtype=np.uint8).tobytes())
        b[3] = (b[3] | 0x80) if i % 2 else (b[3] & 0x7F)
        stems.append(bytes(b))
    out, seen = [], set()
    while len(out) < n:
        m = n - len(out) + 64
        pi, si, sl = rng.integers(0, 8, m), rng.integers(0, 64, m), rng.integers(1, 4, m)
        suf = rng.integers(0, 256, 3 * m, dtype=np.uint8).tobytes()
        for j in range(m):
            k = pre[int(pi[j])] + stems[int(si[j])] + suf[3 * j : 3 * j + int(sl[j])]
            if k not in seen and len(out) < n:
                seen.add(k)
                out.append(k)
    return out


def columns(kind, width, depth, keys):
    sk = CLS[kind](width, depth)
    tab = sk.lhh_count if kind == "hh" else sk.cms
    cols = np.zeros((len(keys), depth), np.int64)
    for i, k in enumerate(keys):
        tab[:] = 0
        if kind == "hh":
            sk.lhh[:] = 0
            sk.key_lens[:] = 0
        sk.add(k, 1)
        nz = (tab != 0).sum(axis=1)
        if not np.all(nz == 1):
            raise Violation(f"{kind}: one add touched {nz.tolist()} counters per row", "cellmap")
        cols[i] = tab.argmax(axis=1)
    return cols


def _joint_task(arg):
    kind, width, depth = arg[:3]
    keyset = arg[3] if len(arg) > 3 else "random"
    rec = common.Recorder()
    keys = _KEYS3 if keyset == "stems" else _KEYS2
    n = len(keys)
    cols = columns(kind, width, depth, keys)
    alpha = 1e-14
    jlo, jhi = binom_interval(n, 1.0 / (width * width), alpha)
    mlo, mhi = binom_interval(n, 1.0 / width, alpha)
    for r in range(depth):
        marg = np.bincount(cols[:, r], minlength=width)
        case = {"kind": kind, "width": width, "depth": depth, "row": r, "keys_seed": _KEYS2_SEED, "keyset": keyset}
        if marg.min() < mlo or marg.max() > mhi:
            rec.violation(case, f"{kind} width={width} depth={depth}: row {r} column counts {marg.min()}..{marg.max()} outside the Binomial({n},1/{width}) interval [{mlo},{mhi}]", "row-not-uniform")
    for r1, r2 in itertools.combinations(range(depth), 2):
        joint = np.bincount(cols[:, r1] * width + cols[:, r2], minlength=width * width)
        case = {"kind": kind, "width": width, "depth": depth, "rows": [r1, r2], "keys_seed": _KEYS2_SEED, "keyset": keyset}
        same = int((cols[:, r1] == cols[:, r2]).sum())
        if joint.min() < jlo or joint.max() > jhi:
            rec.violation(case, f"{kind} width={width} depth={depth}: rows {r1},{r2} joint cell counts {joint.min()}..{joint.max()} outside the Binomial({n},1/{width*width}) interval [{jlo},{jhi}]; {same} of {n} keys share a column in both rows (expected ~{n//width})", "rows-dependent")
        rec.case(case, True, ["row_pairs", f"joint_{kind}", f"keys_{keyset}"])
    return rec


def run(tier, seed, rec):
    global _KEYS2, _KEYS3, _KEYS2_SEED
    quick = tier == "quick"
    jobs = []
    reps = 1 if quick else 4
    for rep in range(reps):
        for K, width in [(5000, 32), (10000, 64), (20000, 128), (5000, 51), (10000, 100), (5000, 48), (5000, 85), (10000, 33)]:
            jobs.append((common.derive_seed(seed, "C14-stream", rep, K, width), K, width))
        for K, width in [(5000, 32), (10000, 64), (5000, 100)]:
            jobs.append((common.derive_seed(seed, "C14-stream-stems", rep, K, width), K, width, "stems"))
    common.pool_merge(_stream_task, jobs, rec)
    _KEYS2_SEED = common.derive_seed(seed, "C14-keys")
    _KEYS2 = rand_keys(np.random.default_rng(_KEYS2_SEED), 20000)
    depths = [2, 4, 8] if quick else [2, 3, 4, 5, 6, 7, 8]
    jj = [("linear", 16, d) for d in depths] + [("log16", 16, 8), ("log8", 16, 8), ("hh", 16, 4), ("linear", 10, 4), ("linear", 64, 3)]
    # widths that are not powers of two, incl. divisors / multiples of the factors of 2^16-1 (3, 5, 17, 257)
    jj += [("linear", 15, 8), ("linear", 51, 5), ("log8", 12, 5), ("log16", 17, 4), ("hh", 9, 4), ("linear", 7, 8)]
    if not quick:
        jj += [("log8", 64, 4), ("log16", 10, 8), ("hh", 8, 8), ("linear", 32, 8)]
    _KEYS3 = stem_keys(np.random.default_rng(common.derive_seed(_KEYS2_SEED, "stems")), 20000)
    jj += [("linear", 16, 8, "stems"), ("hh", 16, 4, "stems"), ("log8", 12, 5, "stems")]
    if not quick:
        jj += [("linear", 15, 8, "stems"), ("log16", 16, 8, "stems"), ("linear", 64, 3, "stems")]
    common.pool_merge(_joint_task, jj, rec)
    _KEYS2 = _KEYS3 = None


def replay(case):
    global _KEYS2, _KEYS3, _KEYS2_SEED
    if "stream_seed" in case:
        r = _stream_task((case["stream_seed"], case["K"], case["width"], case.get("keyset", "random")))
    else:
        _KEYS2_SEED = case["keys_seed"]
        _KEYS2 = rand_keys(np.random.default_rng(_KEYS2_SEED), 20000)
        _KEYS3 = stem_keys(np.random.default_rng(common.derive_seed(_KEYS2_SEED, "stems")), 20000)
        r = _joint_task((case["kind"], case["width"], case["depth"], case.get("keyset", "random")))
    if r.violations:
        raise Violation(r.violations[0]["msg"], r.violations[0]["signature"])
