"""C12 - batch, dict, multiplicity and ngram entry points equal loops of single adds."""
import numpy as np
from hypothesis import given, strategies as st

from vf import common
from vf import strategies as vs
from vf.common import Violation
from vf.world import CELLMAP, interfere, make_sketch, numba_seed, snapshot, snap_diff, snap_equal, sut, windows

RULE = (
    "Hypothesis-generated cases for all five sketch classes (count-min linear/log16/log8 with width in {1,2,3,5,16} and depth 1..3, log "
    "configurations incl. small max_count and num_reserved in {0,1,3,15}; heavy hitters width 1..4 depth 1..3 max_key_len in {2,4,16}; "
    "HyperLogLog p in {7,9,12} with any uint64 seed): three sketches of equal configuration are pre-loaded with a common random history, log "
    "types get an identical planted batch of 2048 PRNG draws, then sketch A receives one compound call (update(list), update(dict) with "
    "multiplicities 1..10^4 (log: 1..3000; half of the log add(key,v) cases have their draws planted AT the advance thresholds base^-(c-num_reserved) of the counters the call passes through, one ulp below = advance / equal = stay), add(key,v), add_ngram(key,n) with n in 1..len+2 (keys up to 40 bytes, occasionally 250..300 bytes), update_ngram(list,n), update() fed an iterable that itself adds a key to the same sketch while being consumed, update() fed an iterable that raises after j keys (the caller catches it)), sketch B the loop of "
    "per-item calls (add(key) / add(key,value) / add_ngram per element) and sketch C the loop of single unit adds (one add per window / per unit of "
    "multiplicity). Oracle: full public state of A, B and C identical (tables, n_added_records, rand_ptr for log types), still identical after a "
    "common continuation of 6 further adds that keeps consuming each sketch's own draw batch; sketch[key]==query(key) for count-min. "
    "Non-trivial: the call contains a repeated key or a key colliding with another key of the call, or an ngram with n < len. Distinct = distinct case."
)
ASSUMPTIONS = [
    "identical random draws are arranged by overwriting rand_nums with the same 2048 PRNG values and setting rand_ptr=0 on all three sketches; when a call needs more than the 2048 planted draws the refill comes from Numba's generator, which is re-seeded identically before each of the three sides",
    "HyperLogLog ignores multiplicities by documentation, so add(key,v) is compared with add(key)",
]

KEYS = vs.keys(40)

CMS_CFGS = st.one_of(
    st.builds(lambda w, d: {"kind": "linear", "width": w, "depth": d}, st.sampled_from([1, 2, 3, 5, 16]), st.integers(1, 3)),
    st.builds(lambda w, d, mc, nr: {"kind": "log8", "width": w, "depth": d, "max_count": mc, "num_reserved": nr},
              st.sampled_from([1, 2, 3, 5, 16]), st.integers(1, 3), st.sampled_from([300, 1000, 2**32 - 1]), st.sampled_from([0, 1, 3, 15])),
    st.builds(lambda w, d, mc, nr: {"kind": "log16", "width": w, "depth": d, "max_count": mc, "num_reserved": nr},
              st.sampled_from([1, 2, 3, 5, 16]), st.integers(1, 3), st.sampled_from([70000, 2**32 - 1]), st.sampled_from([0, 1, 3, 15])),
)
HH_CFG = st.builds(lambda w, d, m: {"kind": "hh", "width": w, "depth": d, "max_key_len": m, "phi": None}, st.sampled_from([1, 2, 3, 4]), st.integers(1, 3), st.sampled_from([2, 4, 16]))
HLL_CFG = st.builds(lambda p, s: {"kind": "hll", "p": p, "seed": s}, st.sampled_from([7, 9, 12]), vs.seeds64)


@st.composite
def cases(draw):
    cfg = draw(st.one_of(CMS_CFGS, CMS_CFGS, HH_CFG, HLL_CFG))
    log = cfg["kind"] in ("log8", "log16")
    pool = draw(st.lists(KEYS, min_size=2, max_size=6))
    if cfg["kind"] == "hh" and draw(st.booleans()):
        # keys longer than max_key_len that share their first max_key_len bytes (the sketch stores them as one key), and that prefix itself
        m = cfg["max_key_len"]
        stem = (pool[0] + b"stem-stem-stem-stem")[:m]
        pool = pool + [stem + b"x", stem + b"yz", stem]
    key = st.sampled_from(pool)
    vmax = 3000 if log else 10**4  # log: may cross the 2048-draw batch boundary (Numba's generator is re-seeded per side)
    val = st.one_of(st.sampled_from([1, 1, 2, 3, 16, 17, 255, 256, 257]), st.integers(1, 40), st.integers(1, vmax))
    pre = draw(st.lists(st.tuples(key, st.integers(1, 20)), min_size=0, max_size=6))
    kind = draw(st.sampled_from(["update_list", "update_list", "update_dict", "update_dict", "add", "add", "add_ngram", "add_ngram", "update_ngram", "update_ngram", "update_reentrant", "update_interrupted"]))
    if cfg["kind"] == "hh" and draw(st.integers(0, 3)) == 0:
        kind = "update_dict"  # for heavy hitters the order in which a dict's items are applied decides who keeps a cell
    op = {"op": kind}
    if kind == "update_list":
        op["keys"] = draw(st.lists(key, min_size=0, max_size=12))
        if op["keys"] and draw(st.integers(0, 5)) == 0 and not log:  # hundreds of entries in one call
            n = draw(st.sampled_from([255, 256, 257, 300, 1024]))
            op["keys"] = [op["keys"][t % len(op["keys"])] for t in range(n)]
    elif kind in ("update_reentrant", "update_interrupted"):
        op["keys"] = draw(st.lists(key, min_size=1, max_size=8))
        op["at"] = draw(st.integers(0, len(op["keys"])))  # position of the nested add / of the exception
        op["extra"] = draw(key)
    elif kind == "update_dict":
        op["items"] = [[k, draw(val)] for k in draw(st.lists(key, min_size=0, max_size=5, unique=True))]
        if draw(st.booleans()):  # counts ascending in insertion order: any re-ordering by count (most_common, sorted) shows
            vals = sorted(v for _, v in op["items"])
            op["items"] = [[k, v] for (k, _), v in zip(op["items"], vals)]
        if log:
            tot = 0
            keep = []
            for k, v in op["items"]:
                if tot + v <= 7000:
                    keep.append([k, v])
                    tot += v
            op["items"] = keep
    elif kind == "add":
        op["k"] = draw(key)
        op["v"] = draw(val)
    elif kind == "add_ngram":
        # also keys that start with a run of one byte value (0xff, 0x00, 0x80) as long as or longer than the ngram
        runs = st.builds(lambda b, k, t: bytes([b]) * k + t, st.sampled_from([0xFF, 0xFF, 0x00, 0x80]), st.integers(1, 20), st.binary(max_size=5))
        op["k"] = draw(st.one_of(key, vs.biased_bytes(0, 40), vs.biased_bytes(0, 40), runs, st.binary(min_size=250, max_size=300)))
        op["n"] = draw(st.integers(1, len(op["k"]) + 2)) if len(op["k"]) < 100 else draw(st.sampled_from([1, 2, 5, 200, 255, 256, len(op["k"]) - 1, len(op["k"])]))
        if draw(st.integers(0, 9)) == 0:  # sizes that do not fit 32 bits
            op["n"] = draw(st.sampled_from([2**32 + 1, 2**32 + 2, 2**40 + 3, 2**64 - 1]))
    else:
        runs = st.builds(lambda b, k, t: bytes([b]) * k + t, st.sampled_from([0xFF, 0xFF, 0x00, 0x80]), st.integers(1, 20), st.binary(max_size=5))
        op["keys"] = draw(st.lists(st.one_of(key, vs.biased_bytes(0, 24), vs.biased_bytes(0, 24), runs, st.binary(min_size=254, max_size=260)), min_size=0, max_size=4))
        op["n"] = draw(st.one_of(st.integers(1, 9), st.integers(1, 9), st.integers(1, 9), st.sampled_from([2**32 + 1, 2**32 + 3, 2**64 - 1])))
    if kind in ("add_ngram", "update_ngram") and cfg["kind"] in ("linear", "hh") and draw(st.integers(0, 3)) == 0:
        # one window of the text is already at the 32-bit ceiling before the call
        text = op["k"] if kind == "add_ngram" else (op["keys"][0] if op["keys"] else b"")
        if text:
            w0 = text if len(text) <= op["n"] else text[: op["n"]]
            pre = pre + [(w0, 2**32 - 1)]
    cont = draw(st.lists(st.tuples(key, st.integers(1, 30)), min_size=6, max_size=6))
    case = {"cfg": cfg, "pre": pre, "op": op, "cont": cont, "rs": draw(st.integers(0, 2**31 - 2)), "as_counter": draw(st.booleans())}
    if log and kind == "add" and draw(st.booleans()):
        # draws AT the advance thresholds of the counters the call passes through (just below = advance, equal = stay)
        op["v"] = draw(st.integers(2, 60))
        case["pre"] = pre + [(op["k"], draw(st.sampled_from([1, 3, 15, 16, 40])))]
        case["thr"] = draw(st.lists(st.booleans(), min_size=1, max_size=8))
    return case


class _Interrupted(Exception):
    pass


def per_item(op, kind):
    """expansion level B: one call per element"""
    k = op["op"]
    if k == "update_reentrant":  # the iterable adds `extra` through add() right after handing out its at-th key
        out = []
        for t, x in enumerate(op["keys"]):
            out.append(("add_default", x))
            if t == op["at"]:
                out.append(("add", op["extra"], 1))
        return out
    if k == "update_interrupted":  # the iterable raises after `at` keys; the caller catches the exception
        return [("add_default", x) for x in op["keys"][: op["at"]]]
    if k == "update_list":
        return [("add_default", x) for x in op["keys"]]
    if k == "update_dict":
        return [("add", x, v) for x, v in op["items"]]
    if k == "add":
        return [("add", op["k"], op["v"])]
    if k == "add_ngram":
        return [("add_ngram", op["k"], op["n"])]
    return [("add_ngram", x, op["n"]) for x in op["keys"]]


def singles(op, kind):
    """expansion level C: one unit add per element / unit of multiplicity / window"""
    k = op["op"]
    hll = kind == "hll"
    if k in ("update_reentrant", "update_interrupted"):
        return [("add", c[1], 1) for c in per_item(op, kind)]
    if k == "update_list":
        return [("add", x, 1) for x in op["keys"]]
    if k == "update_dict":
        return [("add", x, 1) for x, v in op["items"] for _ in range(1 if hll else v)]
    if k == "add":
        return [("add", op["k"], 1) for _ in range(1 if hll else op["v"])]
    if k == "add_ngram":
        return [("add", w, 1) for w in windows(op["k"], op["n"])]
    return [("add", w, 1) for x in op["keys"] for w in windows(x, op["n"])]


def call(sk, c):
    if c[0] == "add":
        sut(sk.add, c[1], c[2])
    elif c[0] == "add_default":
        sut(sk.add, c[1])
    else:
        sut(sk.add_ngram, c[1], c[2])


def full_state(sk, kind):
    s = snapshot(sk, kind)
    if kind in ("log8", "log16") and hasattr(sk, "rand_ptr"):
        s["rand_ptr"] = np.array([int(sk.rand_ptr)])
    return s


def threshold_batch(case, batch):
    """The draw batch for the compound call of a 'thr' case: the j-th draw sits at the advance threshold
    base**-(c - num_reserved) of the counter c the key holds at that moment - one ulp below it (the counter advances)
    or exactly on it (it stays), as case['thr'] says.  The thresholds are found by walking a scratch sketch through
    the unit adds; they are inputs, the oracle stays compound call == loop of single adds."""
    cfg = case["cfg"]
    op = case["op"]
    D = sut(make_sketch, cfg)
    D.rand_nums[:] = batch[::-1]
    D.rand_ptr = 0
    for k, v in case["pre"]:
        sut(D.add, k, v)
    cells = CELLMAP.cells(cfg, op["k"])
    base, nr = float(D.base), int(D.num_reserved)
    ds = []
    for j in range(op["v"]):
        c = min(int(D.cms[r, col]) for r, col in enumerate(cells))
        if c < nr:
            d = 0.5
        else:
            P = base ** (-(float(c) - float(nr)))
            d = float(np.nextafter(P, 0.0)) if case["thr"][j % len(case["thr"])] else P
        D.rand_nums[:] = d
        D.rand_ptr = 0
        sut(D.add, op["k"], 1)
        if int(D.rand_ptr) == 1:
            ds.append(d)
    out = batch.copy()
    out[: len(ds)] = ds
    return out


def run_case(case):
    cfg = case["cfg"]
    from vf.world import reset_interference

    reset_interference()
    kind = cfg["kind"]
    log = kind in ("log8", "log16")
    A, B, C = (sut(make_sketch, cfg) for _ in range(3))
    batch = np.random.default_rng(case["rs"]).random(2048)
    op_batch = batch
    if log and case.get("thr") and case["op"]["op"] == "add":
        op_batch = threshold_batch(case, batch)
    for sk in (A, B, C):
        if log:
            sk.rand_nums[:] = batch[::-1]
            sk.rand_ptr = 0
        for k, v in case["pre"]:
            sut(sk.add, k, v)
        if log:
            sk.rand_nums[:] = op_batch
            sk.rand_ptr = 0
    op = case["op"]
    interfere(cfg)
    if log:
        numba_seed(case["rs"])  # refills inside a kernel come from Numba's generator: same stream for each side
    # A: the compound call
    if op["op"] == "update_reentrant":
        def gen():
            for t, x in enumerate(op["keys"]):
                yield x
                if t == op["at"]:
                    A.add(op["extra"], 1)

        sut(A.update, gen())
    elif op["op"] == "update_interrupted":
        def gen2():
            for t, x in enumerate(op["keys"]):
                if t == op["at"]:
                    raise _Interrupted()
                yield x

        try:
            A.update(gen2())
        except _Interrupted:
            pass
        except Exception as e:  # noqa
            raise Violation(f"update() turned the iterable's own exception into {type(e).__name__}: {e}", "sut-exception")
    elif op["op"] == "update_list":
        sut(A.update, list(op["keys"]))
    elif op["op"] == "update_dict":
        d_ = {k: v for k, v in op["items"]}
        if case.get("as_counter"):
            from collections import Counter as _Counter

            c_ = _Counter()
            c_.update(d_)  # same insertion order as the dict; a Counter IS a dict, so update() must treat it alike
            d_ = c_
        sut(A.update, d_)
    elif op["op"] == "add":
        sut(A.add, op["k"], op["v"])
    elif op["op"] == "add_ngram":
        sut(A.add_ngram, op["k"], op["n"])
    else:
        sut(A.update_ngram, list(op["keys"]), op["n"])
    interfere(cfg)
    if log:
        numba_seed(case["rs"])
    for c in per_item(op, kind):
        call(B, c)
    if log:
        numba_seed(case["rs"])
    for c in singles(op, kind):
        call(C, c)

    def compare(stage):
        sa, sb, sc = full_state(A, kind), full_state(B, kind), full_state(C, kind)
        if not snap_equal(sa, sb):
            raise Violation(f"{kind} {op['op']}: compound call and per-item loop differ in {snap_diff(sa, sb)} {stage}", f"{op['op']}-vs-per-item")
        if not snap_equal(sa, sc):
            raise Violation(f"{kind} {op['op']}: compound call and loop of single unit adds differ in {snap_diff(sa, sc)} {stage}", f"{op['op']}-vs-singles")

    compare("right after the call")
    for sk in (A, B, C):
        if log:
            numba_seed(case["rs"] + 1)
        for k, v in case["cont"]:
            sut(sk.add, k, v)
    compare("after a common continuation (own draw batches)")
    if kind in ("linear", "log8", "log16"):
        for k, _ in case["cont"][:3]:
            if sut(A.__getitem__, k) != sut(A.query, k):
                raise Violation(f"{kind}: sketch[{k!r}] != query", "getitem")
    if kind == "hll" and not (sut(A.query) == sut(C.query)):
        raise Violation("hll: query differs between equal register states", "query-differs")
    return True


def nontrivial(case):
    op = case["op"]
    if op["op"] in ("add_ngram",):
        return op["n"] < len(op["k"])
    if op["op"] == "update_ngram":
        return any(op["n"] < len(k) for k in op["keys"])
    if op["op"] in ("update_reentrant", "update_interrupted"):
        return len(op["keys"]) >= 2
    if op["op"] == "update_list":
        return len(set(op["keys"])) < len(op["keys"]) or len(set(op["keys"])) >= 2
    if op["op"] == "update_dict":
        return len(op["items"]) >= 2
    return op["v"] >= 2


def _shard(arg):
    seed, shard, n_examples = arg
    rec = common.Recorder()
    holder = {}

    @given(case=cases())
    def test(case):
        holder["case"] = case
        ok = run_case(case)
        rec.case(case, bool(ok) and nontrivial(case), [f"kind={case['cfg']['kind']}", f"op={case['op']['op']}"] + ([] if ok else ["skipped_near_refill"]) + (["draws_at_advance_thresholds"] if case.get("thr") else []))

    common.run_given(test, common.derive_seed(seed, "C12", shard), n_examples, holder, rec, retry=run_case)
    return rec


def run(tier, seed, rec):
    total, shards = (4000, 16) if tier == "quick" else (64000, 32)
    common.pool_merge(_shard, [(seed, i, total // shards) for i in range(shards)], rec)


def replay(case):
    run_case(case)
