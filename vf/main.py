"""./check <ID> --tier quick|thorough [--replay file]

exit 0: property held on everything explored (KNOWN-FINDING lines possible)
exit 1: 'VIOLATION property=<id> replay=<path>' printed
exit 2: harness error (never a violation)
"""
import argparse
import glob
import importlib
import json
import os
import sys
import traceback


def _reexec_if_needed():
    want = {
        "PYTHONHASHSEED": "0",
        "NUMBA_THREADING_LAYER": "workqueue",
        "PYTHONDONTWRITEBYTECODE": "1",
        "NUMBA_NUM_THREADS": os.environ.get("NUMBA_NUM_THREADS", "4"),
        "OMP_NUM_THREADS": "1",
    }
    if any(os.environ.get(k) != v for k, v in want.items()):
        env = dict(os.environ)
        env.update(want)
        os.execve(sys.executable, [sys.executable, "-m", "vf.main"] + sys.argv[1:], env)


def main():
    ap = argparse.ArgumentParser()
    ap.add_argument("pid")
    ap.add_argument("--tier", default=os.environ.get("VERIF_TIER", "quick"), choices=["quick", "thorough"])
    ap.add_argument("--replay", default=None)
    ap.add_argument("--seed", type=int, default=None)
    args = ap.parse_args()
    _reexec_if_needed()
    pid = args.pid.upper()
    seed = args.seed if args.seed is not None else int(os.environ.get("VERIF_SEED", "1") or "1")

    from vf import common
    from vf.common import Violation

    try:
        timer = common.Timer()
        common.import_sut()
        common.patch_sleep()
        mod = importlib.import_module(f"vf.{pid.lower()}")
        import gc

        if os.environ.get("VERIF_SETERR"):  # probe: the library under a process-wide numpy error state
            import numpy as _np

            _np.seterr(all=os.environ["VERIF_SETERR"])
        gc.collect()
        gc.freeze()  # everything imported so far (numba, hypothesis, the harness) stays out of later collections
    except BaseException:
        traceback.print_exc()
        print(f"HARNESS-ERROR property={pid} (setup)")
        return 2

    if args.replay:
        try:
            data = json.load(open(args.replay))
            case = common.unjson(data["case"] if "case" in data and "property_id" in data else data)
            try:
                mod.replay(case)
            except Violation as v:
                print(f"replay still fails: {v.msg}")
                print(f"VIOLATION property={pid} replay={args.replay}")
                return 1
            print(f"replay of {args.replay}: property holds")
            return 0
        except BaseException:
            traceback.print_exc()
            print(f"HARNESS-ERROR property={pid} (replay)")
            return 2

    try:
        rec = common.Recorder()
        # 1. corpus of saved regression cases (seconds)
        for path in sorted(glob.glob(os.path.join(common.CORPUS_DIR, pid, "*.json"))):
            data = json.load(open(path))
            case = common.unjson(data["case"])
            rec.count("corpus_replayed")
            try:
                mod.replay(case)
            except Violation as v:
                rec.violation(case, f"corpus case {os.path.basename(path)}: {v.msg}", v.signature)
        # 2. the search
        try:
            mod.run(args.tier, seed, rec)
        except Violation as v:  # an oracle outside a recorder: still a finding, not a harness error
            rec.violation({"note": "raised outside a recorded case; rerun the check to reproduce", "seed": seed, "tier": args.tier}, v.msg, v.signature)
        wall = timer()
        known = common.load_known(pid)
        real = []
        announced = set()
        for v in rec.violations:
            if v["signature"] in known:
                if v["signature"] not in announced:
                    announced.add(v["signature"])
                    print(f"KNOWN-FINDING: property={pid} {known[v['signature']]}")
            else:
                real.append(v)
        common.write_evidence(
            pid, args.tier, seed, rec, wall, mod.RULE, mod.ASSUMPTIONS, len(real),
            extra=getattr(mod, "EXTRA", None),
        )
        print(
            f"{pid} tier={args.tier} seed={seed} evaluations={rec.evaluations} "
            f"distinct_nontrivial={rec.distinct_nontrivial} violations={len(real)} wall={wall:.1f}s"
        )
        if not real and rec.flaky:
            print(f"HARNESS-ERROR property={pid}: inconclusive (a failure that could not be reproduced, or a task that did not finish): {rec.flaky[0]}")
            return 2
        if real:
            for i, v in enumerate(real[:5]):
                path = common.write_replay(pid, i, v, seed, args.tier)
                print(f"  {v['msg']}")
                print(f"VIOLATION property={pid} replay={path}")
            return 1
        return 0
    except BaseException:
        traceback.print_exc()
        print(f"HARNESS-ERROR property={pid} (run)")
        return 2


if __name__ == "__main__":
    sys.stdout.reconfigure(line_buffering=True)
    rc = main()
    sys.stdout.flush()
    sys.stderr.flush()
    os._exit(rc)
