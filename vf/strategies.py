"""Hypothesis strategies shared by the checks (DESIGN 7, 'Key strategy')."""
from hypothesis import strategies as st

CEIL = 2**32 - 1

# bytes biased to the values where sign-extension / padding bugs live
biased_byte = st.one_of(
    st.sampled_from([0x00, 0x7F, 0x80, 0xFF]),
    st.integers(0, 255),
)


def biased_bytes(min_size=0, max_size=64):
    return st.lists(biased_byte, min_size=min_size, max_size=max_size).map(bytes)


def keys(max_size=64):
    """byte-string keys: empty, NUL-only, NUL-suffixed, high bytes, long."""
    return st.one_of(
        st.sampled_from([b"", b"\0", b"\0\0", b"\0\0\0\0", b"a", b"a\0", b"a\0\0", b"ab", b"\xff", b"\xff\0", b"\x80\x7f"]),
        biased_bytes(0, 8),
        biased_bytes(0, max_size),
        st.binary(min_size=0, max_size=max_size),
    )


def universe(min_size=3, max_size=10, max_key=64):
    """A small universe of distinct keys that always contains NUL-alias pairs."""

    def build(ks):
        out = []
        for k in ks:
            if k not in out:
                out.append(k)
        return out

    base = st.lists(keys(max_key), min_size=min_size, max_size=max_size).map(build)

    def add_alias(u):
        k = u[0]
        for extra in (k + b"\0", b"", b"\0"):
            if extra not in u and len(extra) <= max_key:
                u = u + [extra]
        return u

    return base.map(add_alias)


# multiplicities incl. values adjacent to 2^32-1 and beyond
def multiplicities(big=True, huge=False):
    small = st.one_of(st.sampled_from([0, 1, 1, 1, 2, 3, 5, 7, 100]), st.integers(0, 50))
    if not big:
        return small
    if huge:  # linear count-min takes any Python int (it clamps before the kernel is called)
        return st.one_of(multiplicities(True), multiplicities(True), multiplicities(True), st.sampled_from([2**63, 2**64 - 1, 2**64, 2**64 + 1, 10**30]))
    return st.one_of(
        small,
        small,
        small,
        st.sampled_from([CEIL - 2, CEIL - 1, CEIL, CEIL + 1, CEIL + 2, 2**31, 2**33, 2**40, (CEIL // 2), (CEIL // 2) + 1]),
        # storage-width boundaries: a counter or total landing exactly on 2^8, 2^16, 2^24, 2^31
        st.sampled_from([255, 256, 257, 65535, 65536, 65537, 2**24 - 1, 2**24, 2**24 + 1, 2**31 - 1, 2**31 + 1, 128, 32768]),
    )


seeds64 = st.one_of(
    st.sampled_from([0, 1, 2**32 - 1, 2**32, 2**63, 2**64 - 1]),
    st.integers(0, 2**64 - 1),
)
