"""Count-min helpers shared by C05, C06, C09, C10, C12, C18."""
import numpy as np
from hypothesis import strategies as st

from vf.common import CEIL
from vf.models import log_value
from vf.world import CELLMAP

ONE_MINUS = 1.0 - 2.0**-53  # largest double below 1: a draw that never advances a counter
TINY = 5e-324

DRAWS = st.lists(
    st.one_of(st.sampled_from([0.0, 0.0, ONE_MINUS, ONE_MINUS, TINY, 0.5]), st.floats(0.0, 1.0, exclude_max=True, allow_nan=False)),
    min_size=1,
    max_size=8,
)

WIDTHS = [1, 1, 2, 2, 3, 4, 8, 16]

# depths: the usual few rows, and occasionally more rows than a 64-bit word has bits
DEPTHS = st.one_of(st.integers(1, 4), st.integers(1, 4), st.integers(1, 4), st.integers(1, 4), st.integers(1, 4), st.sampled_from([65, 66, 130]))
LINEAR_CFG = st.builds(lambda w, d, f: {"kind": "linear", "width": w, "depth": d, **({"factory": True} if f else {})}, st.sampled_from(WIDTHS), DEPTHS, st.sampled_from([False, False, True]))
_AT = st.sampled_from([None, None, "u64", "factory"])
LOG8_CFG = st.builds(
    lambda w, d, mc, nr, at: {"kind": "log8", "width": w, "depth": d, "max_count": mc, "num_reserved": nr, **({"factory": True} if at == "factory" else {"argtype": at} if at else {})},
    st.sampled_from(WIDTHS), st.integers(1, 4), st.sampled_from([300, 1000, 1004, 1024, 5000, 10**9, CEIL]), st.sampled_from([0, 0, 1, 3, 15]), _AT,
)
LOG16_CFG = st.builds(
    lambda w, d, mc, nr, at: {"kind": "log16", "width": w, "depth": d, "max_count": mc, "num_reserved": nr, **({"factory": True} if at == "factory" else {"argtype": at} if at else {})},
    st.sampled_from(WIDTHS), st.integers(1, 4), st.sampled_from([70000, 10**6, 10**7, 10**8, CEIL]), st.sampled_from([0, 0, 1, 3, 15, 1023]), _AT,
)
ANY_CMS_CFG = st.one_of(LINEAR_CFG, LOG8_CFG, LOG16_CFG)
LOG_CFG = st.one_of(LOG8_CFG, LOG16_CFG)

UMAX = {"linear": CEIL, "log16": 65535, "log8": 255}


def min_counter(sk, cfg, key):
    cells = CELLMAP.cells(cfg, key)
    return min(int(sk.cms[r, c]) for r, c in enumerate(cells))


def decode(sk, c):
    """Own decode from the public parameters of a log sketch."""
    return log_value(int(c), int(sk.num_reserved), float(sk.base))
