"""Reference models (DESIGN 5.3).  Pure Python / numpy, independent of the jitted kernels."""
import math

import numpy as np

from vf import refhash

# ------------------------------------------------------------------ HyperLogLog


def hll_index_rank(h, p):
    """(register index, rank) of a 64-bit hash for precision p: index = low p bits; rank = one
    plus the number of leading zeros of the remaining 64-p bits."""
    idx = h & ((1 << p) - 1)
    rest = h >> p
    rank = (64 - p) - rest.bit_length() + 1
    return idx, rank


def hll_registers(keys, p, seed):
    reg = np.zeros(1 << p, np.uint8)
    for k in keys:
        i, r = hll_index_rank(refhash.fasthash64(k, seed), p)
        if r > reg[i]:
            reg[i] = r
    return reg


def hll_key_for(idx, rank, p, seed, salt=0):
    """An 8-byte key whose hash lands in register idx with the given rank (1..64-p+1).
    salt varies the free low bits of the remainder so that distinct keys can share (idx, rank)."""
    nbits = 64 - p
    if rank == nbits + 1:
        rest = 0
    else:
        top = 1 << (nbits - rank)  # leading one after rank-1 zeros
        if salt == "ones":  # every bit below the leading one set (just under the next power of two)
            rest = top | (top - 1)
        elif salt == "ones0":  # all ones except the lowest bit
            rest = (top | (top - 1)) & ~1 if top > 1 else top
        else:
            rest = top | (salt % top if top > 1 else 0)
    h = (rest << p) | idx
    return refhash.preimage8(h, seed)


def hllpp_estimate(registers, p, threshold, raw_estimate, bias_data):
    """The HyperLogLog++ estimate exactly as the property states it.  Returns (value, branch,
    margin) where margin is the relative distance of the deciding quantity to its boundary."""
    m = 1 << p
    reg = np.asarray(registers, dtype=np.int64)
    V = int(np.count_nonzero(reg == 0))
    alpha = 0.7213 / (1.0 + 1.079 / m)

    def raw():
        # exact sum of 2^-r via integers: sum 2^(64-r) / 2^64
        tot = 0
        for r, c in zip(*np.unique(reg, return_counts=True)):
            tot += int(c) << (64 - int(r))
        return alpha * m * m / (tot / float(1 << 64))

    if V > 0:
        lc = m * math.log(m / V)
        margin = abs(lc - threshold) / max(1.0, threshold)
        if lc <= threshold:
            return lc, "linear_counting", margin
        e = raw()
        return e - float(np.interp(e, raw_estimate, bias_data)), "bias_corrected_with_zeros", margin
    e = raw()
    margin = abs(e - 5.0 * m) / (5.0 * m)
    if e <= 5.0 * m:
        return e - float(np.interp(e, raw_estimate, bias_data)), "bias_corrected_no_zeros", margin
    return e, "raw", margin


# ------------------------------------------------------------------ log counters


def log_value(c, nr, base):
    """Decoded value of counter c (own decode from the public parameters)."""
    if c <= nr:
        return float(c)
    cp = float(c - nr)
    return (base**cp - 1.0) / (base - 1.0) + float(nr)


def log_counter_model(counter, nr, umax, base, draws, value, draw_at_boundary=True):
    """The update rule of the property: +1 deterministically below num_reserved, at or above it
    one uniform draw u is consumed and the counter advances iff u < base**-(c-nr); nothing
    happens at the maximum.  draws is an iterator of uniforms.  Returns (counter, n_consumed)."""
    used = 0
    for _ in range(value):
        if counter >= umax:
            break
        cp = counter - nr
        if cp < 0 or (cp == 0 and not draw_at_boundary):
            # deterministic step (at c == num_reserved the advance probability is base**0 = 1, so an
            # implementation may or may not spend a draw on it: both variants are legitimate)
            counter += 1
        else:
            u = next(draws)
            used += 1
            if u < base ** (-float(cp)):
                counter += 1
    return counter, used


def log_chain_distribution(nr, umax, base, n_adds, c0=0):
    """Exact distribution of the counter after n_adds unit adds (Markov chain, DP)."""
    size = umax + 1
    p = np.zeros(size)
    p[c0] = 1.0
    adv = np.ones(size)
    for c in range(size):
        if c >= umax:
            adv[c] = 0.0
        elif c >= nr:
            adv[c] = base ** (-float(c - nr))
    for _ in range(n_adds):
        move = p * adv
        p = p - move
        p[1:] += move[:-1]
    return p
