"""Shared runtime for the sketchnu verification harness.

Everything here is harness code: an exception raised here is a harness error (exit 2),
never a VIOLATION.  See DESIGN.md section 4.
"""
import gc
import hashlib
import json
import os
import sys
import time
import traceback

VERIF_DIR = os.path.dirname(os.path.dirname(os.path.abspath(__file__)))
REPO = os.environ.get("VERIF_REPO", "/repo")
EVIDENCE_DIR = os.environ.get("VERIF_EVIDENCE_DIR") or os.path.join(VERIF_DIR, "evidence")
REPLAY_DIR = os.path.join(os.environ["VERIF_EVIDENCE_DIR"], "replays") if os.environ.get("VERIF_EVIDENCE_DIR") else os.path.join(VERIF_DIR, "replays")
CORPUS_DIR = os.path.join(VERIF_DIR, "corpus")
KNOWN_FILE = os.path.join(VERIF_DIR, "KNOWN_FINDINGS.txt")
CEIL = 2**32 - 1
NPROC = int(os.environ.get("VERIF_NPROC", "16"))

LEVELS = {"C19": "fault_enumeration", "C20": "fault_enumeration"}


class Violation(Exception):
    """The system under test broke the property (found by an oracle)."""

    def __init__(self, msg, signature=None):
        super().__init__(msg)
        self.msg = msg
        self.signature = signature or "generic"


class HarnessError(Exception):
    pass


def import_sut():
    """Import sketchnu from REPO's working tree and make sure that is what we got."""
    if REPO not in sys.path:
        sys.path.insert(0, REPO)
    import warnings

    warnings.filterwarnings("ignore", category=SyntaxWarning)
    import sketchnu  # noqa

    got = os.path.realpath(os.path.dirname(os.path.dirname(sketchnu.__file__)))
    if got != os.path.realpath(REPO):
        raise HarnessError(f"sketchnu imported from {got}, expected {REPO}")
    # make the cyclic collector cheap: everything numba created stays out of its way
    gc.collect()
    gc.freeze()
    return sketchnu


def patch_sleep():
    """Shared-memory __del__ sleeps 0.25 s; make that a no-op (cost only, see DESIGN 1)."""
    import sketchnu.countmin as cm
    import sketchnu.heavyhitters as hh
    import sketchnu.hyperloglog as hl

    def _nosleep(_x=0):
        return None

    cm.sleep = _nosleep
    hh.sleep = _nosleep
    hl.sleep = _nosleep


# ------------------------------------------------------------------ seeds / json


def derive_seed(seed, *parts):
    h = hashlib.sha256(repr((int(seed),) + tuple(parts)).encode()).digest()
    return int.from_bytes(h[:8], "little")


def jsonable(x):
    """bytes -> {'hex': ...}; numpy scalars -> python; tuples -> lists."""
    import numpy as np

    if isinstance(x, (bytes, bytearray)):
        return {"hex": bytes(x).hex()}
    if isinstance(x, dict):
        return {str(k) if not isinstance(k, (bytes, bytearray)) else "hex:" + bytes(k).hex(): jsonable(v) for k, v in x.items()}
    if isinstance(x, (list, tuple)):
        return [jsonable(v) for v in x]
    if isinstance(x, np.integer):
        return int(x)
    if isinstance(x, np.floating):
        return float(x)
    if isinstance(x, np.ndarray):
        return jsonable(x.tolist())
    return x


def unjson(x):
    if isinstance(x, dict):
        if set(x.keys()) == {"hex"}:
            return bytes.fromhex(x["hex"])
        out = {}
        for k, v in x.items():
            if isinstance(k, str) and k.startswith("hex:"):
                out[bytes.fromhex(k[4:])] = unjson(v)
            else:
                out[k] = unjson(v)
        return out
    if isinstance(x, list):
        return [unjson(v) for v in x]
    return x


def fingerprint(case):
    s = json.dumps(jsonable(case), sort_keys=True, separators=(",", ":"))
    return int.from_bytes(hashlib.sha1(s.encode()).digest()[:8], "little")


# ------------------------------------------------------------------ recorder


class Recorder:
    """Collects what a run covered.  Mergeable across pool shards."""

    MAX_SAMPLES = 5
    MAX_VIOL = 20

    def __init__(self):
        self.evaluations = 0
        self.nontrivial = set()  # 64-bit fingerprints of distinct non-trivial cases
        self.nontrivial_bulk = 0  # distinct-by-construction non-trivial cases (enumerations)
        self.samples = []
        self.classes = {}
        self.violations = []  # dicts: {case, msg, signature}
        self.notes = {}
        self.exhaustive = []
        self.flaky = []

    def case(self, case, nontrivial, classes=(), n=1):
        self.evaluations += n
        if nontrivial:
            self.nontrivial.add(fingerprint(case))
            self._sample(case)
        for c in classes:
            self.classes[c] = self.classes.get(c, 0) + 1

    BIG_SAMPLE = 6000  # characters of JSON: evidence files should stay readable

    def _sample(self, case):
        """keep the first MAX_SAMPLES non-trivial cases, but let smaller ones replace very long ones"""
        if len(self.samples) < self.MAX_SAMPLES:
            self.samples.append(jsonable(case))
            return
        sizes = getattr(self, "_sizes", None)
        if sizes is None:
            sizes = self._sizes = [len(json.dumps(x)) for x in self.samples]
        big = max(range(len(sizes)), key=sizes.__getitem__)
        if sizes[big] <= self.BIG_SAMPLE:
            return
        j = jsonable(case)
        n = len(json.dumps(j))
        if n < sizes[big]:
            self.samples[big] = j
            sizes[big] = n

    def bulk(self, n_eval, n_nontrivial_distinct, sample=None, classes=None):
        """For enumerations whose cases are distinct by construction."""
        self.evaluations += int(n_eval)
        self.nontrivial_bulk += int(n_nontrivial_distinct)
        if sample is not None and len(self.samples) < self.MAX_SAMPLES:
            self.samples.append(jsonable(sample))
        for c, v in (classes or {}).items():
            self.classes[c] = self.classes.get(c, 0) + int(v)

    def count(self, cls, n=1):
        self.classes[cls] = self.classes.get(cls, 0) + n

    def violation(self, case, msg, signature="generic"):
        if len(self.violations) < self.MAX_VIOL:
            self.violations.append({"case": jsonable(case), "msg": str(msg), "signature": signature})

    def merge(self, other):
        self.evaluations += other.evaluations
        self.nontrivial |= other.nontrivial
        self.nontrivial_bulk += other.nontrivial_bulk
        for s in other.samples:
            if len(self.samples) < self.MAX_SAMPLES:
                self.samples.append(s)
                self.__dict__.pop("_sizes", None)
            else:  # a smaller sample replaces a very long one
                sizes = getattr(self, "_sizes", None)
                if sizes is None:
                    sizes = self._sizes = [len(json.dumps(x)) for x in self.samples]
                big = max(range(len(sizes)), key=sizes.__getitem__)
                n = len(json.dumps(s))
                if sizes[big] > self.BIG_SAMPLE and n < sizes[big]:
                    self.samples[big] = s
                    sizes[big] = n
        for c, v in other.classes.items():
            self.classes[c] = self.classes.get(c, 0) + v
        for v in other.violations:
            if len(self.violations) < self.MAX_VIOL:
                self.violations.append(v)
        for k, v in other.notes.items():
            self.notes.setdefault(k, v)
        self.flaky += getattr(other, "flaky", [])
        self.exhaustive += other.exhaustive
        return self

    @property
    def distinct_nontrivial(self):
        return len(self.nontrivial) + self.nontrivial_bulk


# ------------------------------------------------------------------ pool


_POOL_FN = None


def _pool_entry(arg):
    try:
        return ("ok", _POOL_FN(arg))
    except Violation as v:  # a shard may also return violations through its Recorder
        r = Recorder()
        r.violation({"shard_arg": jsonable(arg)}, v.msg, v.signature)
        return ("ok", r)
    except BaseException:
        return ("err", traceback.format_exc())


def _die_with_parent():
    """pool children are killed when the check process goes away (a check that is itself killed - e.g. by a caller's
    timeout while a kernel never returns - must not leave spinning children behind)"""
    try:
        import ctypes
        import signal

        ctypes.CDLL("libc.so.6", use_errno=True).prctl(1, signal.SIGKILL)  # PR_SET_PDEATHSIG
    except Exception:  # noqa
        pass


def pool_map(fn, args, nproc=None):
    """Run fn over args in a fork pool (sketchnu already imported and compiled in the parent, so children pay
    nothing).  fn must return a picklable value.  A child that dies (segfault / abort inside a jitted kernel) does
    not hang the check: the tasks lost with it are re-run one by one in isolated children, and a task that kills
    its child again is reported as a violation (the library crashed the process on generated input)."""
    import concurrent.futures as cf
    import multiprocessing as mp
    from concurrent.futures.process import BrokenProcessPool

    global _POOL_FN
    args = list(args)
    nproc = min(nproc or NPROC, max(1, len(args)))
    _POOL_FN = fn
    ctx = mp.get_context("fork")
    gc.collect()
    res = [None] * len(args)
    lost = []
    stall = float(os.environ.get("VERIF_STALL_S", "2400"))
    with cf.ProcessPoolExecutor(nproc, mp_context=ctx, initializer=_die_with_parent) as ex:
        futs = {ex.submit(_pool_entry, a): i for i, a in enumerate(args)}
        pending = set(futs)
        while pending:
            done, pending = cf.wait(pending, timeout=stall, return_when=cf.FIRST_COMPLETED)
            if not done:
                # no task finished for `stall` seconds: a kernel that never returns cannot be interrupted from inside, so
                # the workers are killed and the unfinished tasks are recorded as inconclusive (never as violations)
                for p in list(getattr(ex, "_processes", {}).values()):
                    try:
                        p.kill()
                    except Exception:  # noqa
                        pass
                for f in pending:
                    r = Recorder()
                    r.flaky.append(f"task {_short_repr(args[futs[f]])} did not finish: no task completed within {stall:.0f} s (inconclusive)")
                    res[futs[f]] = ("ok", r)
                break
            for f in done:
                i = futs[f]
                try:
                    res[i] = f.result()
                except BrokenProcessPool:
                    lost.append(i)
    for i in sorted(lost):
        with cf.ProcessPoolExecutor(1, mp_context=ctx, initializer=_die_with_parent) as ex:
            try:
                res[i] = ex.submit(_pool_entry, args[i]).result()
            except BrokenProcessPool:
                r = Recorder()
                r.violation({"pool_task": jsonable(args[i]), "note": "re-run the check to reproduce"},
                            f"the library crashed the worker process (killed by a signal) while running task {_short_repr(args[i])}", "process-crash")
                res[i] = ("ok", r)
    out = []
    for tag, val in res:
        if tag == "err":
            raise HarnessError("pool shard failed:\n" + val)
        out.append(val)
    return out


def _short_repr(x):
    s = repr(x)
    return s if len(s) < 300 else s[:300] + "..."


def pool_merge(fn, args, rec, nproc=None):
    for r in pool_map(fn, args, nproc):
        rec.merge(r)
    return rec


# ------------------------------------------------------------------ hypothesis glue


def hyp_settings(max_examples, stateful_step_count=None, shrink=True):
    from hypothesis import settings, HealthCheck, Phase

    phases = [Phase.explicit, Phase.generate, Phase.target]
    if shrink:
        phases.append(Phase.shrink)
    kw = dict(
        max_examples=max_examples,
        deadline=None,
        database=None,
        report_multiple_bugs=False,
        suppress_health_check=list(HealthCheck),
        phases=phases,
        print_blob=False,
    )
    if stateful_step_count is not None:
        kw["stateful_step_count"] = stateful_step_count
    return settings(**kw)


def _flaky(f, holder, rec, retry):
    """Hypothesis saw a failure that did not repeat.  If the stored failing case fails again when re-run directly,
    the system under test itself is non-deterministic *and* violating: report it.  Otherwise it is inconclusive
    (exit 2), never a violation."""
    case = holder.get("case")
    if retry is not None and case is not None:
        for _ in range(6):
            try:
                retry(case)
            except Violation as v:
                rec.violation(case, v.msg + " [non-deterministic: the same case passes in some runs]", v.signature)
                return True
    # inconclusive: remembered, and turned into exit 2 by the runner unless a real violation is found elsewhere
    rec.flaky.append(str(f)[:600])
    return False


def run_given(test, seed, max_examples, last_fail_holder, rec, retry=None):
    """Run a @given-decorated test (without settings/seed applied yet) under a pinned seed.
    The test body must store its case in last_fail_holder['case'] *before* raising
    Violation.  Hypothesis replays the minimal failing example last, so after the run
    the holder contains the shrunk case.  Returns True iff a violation was found."""
    import hypothesis

    t = hypothesis.seed(seed % (2**63))(hyp_settings(max_examples)(test))
    try:
        t()
    except Violation as v:
        rec.violation(last_fail_holder.get("case"), v.msg, v.signature)
        return True
    except hypothesis.errors.Flaky as f:
        return _flaky(f, last_fail_holder, rec, retry)
    return False


def run_machine(machine_cls, seed, max_examples, steps, last_fail_holder, rec, retry=None):
    import hypothesis
    from hypothesis.stateful import run_state_machine_as_test

    cls = hypothesis.seed(seed % (2**63))(machine_cls)
    try:
        run_state_machine_as_test(cls, settings=hyp_settings(max_examples, steps))
    except Violation as v:
        rec.violation(last_fail_holder.get("case"), v.msg, v.signature)
        return True
    except hypothesis.errors.Flaky as f:
        return _flaky(f, last_fail_holder, rec, retry)
    return False


# ------------------------------------------------------------------ known findings


def load_known(pid):
    """Lines: 'known: property=<id> signature=<sig> <text>' suppress (and announce) a
    violation with that signature; 'fixed: ...' lines suppress nothing."""
    known = {}
    if os.path.exists(KNOWN_FILE):
        for line in open(KNOWN_FILE):
            line = line.strip()
            if not line.startswith("known:"):
                continue
            parts = line.split()
            kv = dict(p.split("=", 1) for p in parts[1:] if "=" in p)
            if kv.get("property") == pid and "signature" in kv:
                known[kv["signature"]] = line
    return known


# ------------------------------------------------------------------ evidence


def write_evidence(pid, tier, seed, rec, wall, rule, assumptions, n_viol, extra=None):
    os.makedirs(EVIDENCE_DIR, exist_ok=True)
    cov = {
        "evaluations": int(rec.evaluations),
        "distinct_nontrivial": int(rec.distinct_nontrivial),
        "rule": rule,
        "samples": rec.samples[: Recorder.MAX_SAMPLES],
        "classes": {k: rec.classes[k] for k in sorted(rec.classes)},
    }
    if rec.exhaustive:
        cov["exhaustive"] = True
        cov["exhaustive_subspaces"] = rec.exhaustive
    else:
        cov["exhaustive"] = False
    if rec.notes:
        cov["notes"] = jsonable(rec.notes)
    if extra:
        cov.update(jsonable(extra))
    ev = {
        "property_id": pid,
        "tier": tier,
        "seed": int(seed),
        "level": LEVELS.get(pid, "exploration"),
        "coverage": cov,
        "assumptions": list(assumptions),
        "wall_s": round(float(wall), 3),
        "violations": int(n_viol),
    }
    # minimal self-validation (jsonschema is not installed in /venv)
    assert ev["tier"] in ("quick", "thorough")
    if n_viol == 0 and (cov["evaluations"] < 1 or cov["distinct_nontrivial"] < 2 or not cov["samples"]):
        raise HarnessError(
            f"evidence for {pid} would be invalid/vacuous: evaluations={cov['evaluations']} "
            f"distinct_nontrivial={cov['distinct_nontrivial']} samples={len(cov['samples'])}"
        )
    path = os.path.join(EVIDENCE_DIR, f"{pid}.json")
    tmp = path + ".tmp"
    with open(tmp, "w") as f:
        json.dump(ev, f, indent=1, sort_keys=True)
    os.replace(tmp, path)
    return path


def write_replay(pid, idx, viol, seed, tier):
    os.makedirs(REPLAY_DIR, exist_ok=True)
    path = os.path.join(REPLAY_DIR, f"{pid}_{tier}_s{seed}_{idx}.json")
    with open(path, "w") as f:
        json.dump({"property_id": pid, "msg": viol["msg"], "signature": viol["signature"], "case": viol["case"]}, f, indent=1, sort_keys=True)
    return path


class Timer:
    def __init__(self):
        self.t0 = time.time()

    def __call__(self):
        return time.time() - self.t0
