"""C10 - save/load reproduces the sketch exactly, for every sketch type."""
import itertools
import os
import shutil
import tempfile

import numpy as np
from hypothesis import given, strategies as st

from vf import common
from vf import strategies as vs
from vf.cms_common import DRAWS
from vf.common import CEIL, Violation
from vf.hh_common import none_threshold_ok
from vf.world import CLASS_OF, interfere, make_sketch, plant, snapshot, snap_diff, snap_equal, sut

import sketchnu.countmin as cmmod
from sketchnu.countmin import CountMinLinear, CountMinLog8, CountMinLog16
from sketchnu.heavyhitters import HeavyHitters
from sketchnu.hyperloglog import HyperLogLog

RULE = (
    "Hypothesis-generated cases per sketch class (5 classes): random configuration (width/depth 1 allowed; log max_count in {300,1000,70000,1e6,"
    "2^32-1,2^40}, num_reserved in {0,1,3,15,100,1023}; heavy-hitter max_key_len 1..16, phi None/0.01/0.5/1.0/one ulp or 2e-6 relative below the default 1/width; HyperLogLog p 7..16 with seeds from "
    "{0,1,2^32-1,2^32,2^53+1,2^63,2^63+12345,2^64-1,any}), a random history (adds with multiplicities, list/dict/ngram updates, merges of other sketches with their own short histories, n_records set to a "
    "generated value), then chains of up to 3 rounds: save (to a fresh path - ordinary name, 254-byte base name, or a symbolic link -, over a file holding another sketch of the same shape and totals, or over a file that is not a sketch) -> load (class loader, or countmin.load for count-min; shared_memory False/True) -> "
    "compare -> a fresh second copy merges the original -> common continuation on original and copy (same planted draws for log types) -> "
    "compare -> continue from the copy. Oracle: same class; equal public parameters (width, depth, max_count, num_reserved, base, p, seed, phi, "
    "max_key_len); equal tables, n_added(), n_records(); equal queries for every universe key (heavy hitters: query(inf,t) for t in {None,0,1} and "
    "hh[key]; HyperLogLog: query()); merge raises nothing. Thorough tier only: one linear sketch with a table of exactly 2 GiB (width 2^26, depth 8) is saved, loaded and compared. A few standard environment variables (SOURCE_DATE_EPOCH=0 or unparsable, TZ, LC_ALL) are set to unusual values in half of the cases. Deterministic part: for all 6 ordered pairs of count-min types and several shapes the "
    "class loader of one type must reject a file written by another (any exception), and countmin.load must return the writer's class; for default-phi heavy hitters of every width 1..250 (thorough 1..1000) with n_added = k*width and keys holding exactly k-1 and k, original and loaded copy must answer alike. "
    "Non-trivial: non-default parameter, or non-empty state, or shared-memory load. Distinct = distinct case."
)
ASSUMPTIONS = [
    "n_records is set through the documented n_added_records attribute (as parallel_add does)",
    "log sketches: 'same random draws' is arranged by planting the same draws on original and copy before each continuation step",
]

SEEDS = st.one_of(st.sampled_from([0, 1, 2**32 - 1, 2**32, 2**53 + 1, 2**63, 2**63 + 12345, 2**64 - 1]), st.integers(0, 2**64 - 1))
W = st.sampled_from([1, 1, 2, 3, 5, 16, 33])
CFGS = {
    "linear": st.builds(lambda w, d: {"kind": "linear", "width": w, "depth": d}, W, st.integers(1, 4)),
    "log8": st.builds(lambda w, d, mc, nr: {"kind": "log8", "width": w, "depth": d, "max_count": mc, "num_reserved": nr}, W, st.integers(1, 4),
                      st.sampled_from([300, 1000, 10**6, CEIL, 2**40]), st.sampled_from([0, 1, 3, 15, 100])),
    "log16": st.builds(lambda w, d, mc, nr: {"kind": "log16", "width": w, "depth": d, "max_count": mc, "num_reserved": nr}, W, st.integers(1, 4),
                       st.sampled_from([70000, 10**6, CEIL, 2**40]), st.sampled_from([0, 1, 3, 15, 1023])),
    # phi: default (None = 1/width), ordinary values, and values next to the default (one ulp / 2e-6 relative below 1/width)
    "hh": st.builds(lambda w, d, m, phi, at: {"kind": "hh", "width": w, "depth": d, "max_key_len": m, "phi": _phi(phi, w), **({"argtype": at} if at else {})}, st.sampled_from([1, 1, 2, 3, 8, 70]), st.integers(1, 4),
                    st.integers(1, 16), st.sampled_from([None, None, 0.01, 0.5, 1.0, "ulp_below_default", "just_below_default"]), st.sampled_from([None, None, None, "u8", "i8", "u32", "i64", "u64", "i32"])),
    "hll": st.builds(lambda p, s, at: {"kind": "hll", "p": p, "seed": s, **({"argtype": at} if at else {})}, st.integers(7, 16), SEEDS, st.sampled_from([None, None, None, "u8", "i8", "u16", "i64", "u64", "i32"])),
}
DEFAULTS = {"log8": (CEIL, 15), "log16": (CEIL, 1023)}


def _phi(phi, width):
    if phi == "ulp_below_default":
        return float(np.nextafter(1.0 / width, 0.0))
    if phi == "just_below_default":
        return (1.0 / width) * (1 - 2e-6)
    return phi


@st.composite
def cases(draw):
    kind = draw(st.sampled_from(["linear", "log8", "log16", "hh", "hll"]))
    cfg = draw(CFGS[kind])
    log = kind in ("log8", "log16")
    U = draw(vs.universe(2, 6, 20))
    key = st.sampled_from(U)
    # linear sketches whose rows end up on different sides of a storage-width boundary (2^8, 2^16): narrow tables, merges,
    # multiplicities whose pairwise sums cross the boundary while single values stay below it
    straddle = kind == "linear" and draw(st.sampled_from([False, False, True]))
    if straddle:
        cfg = {"kind": "linear", "width": draw(st.sampled_from([2, 3, 5])), "depth": draw(st.integers(2, 4))}
    val = st.one_of(st.sampled_from([0, 1, 1, 2, 3, 17]), st.integers(0, 60)) if log else st.one_of(st.sampled_from([0, 1, 2, 3, 100, 2**31, CEIL]), st.integers(0, 60), st.sampled_from([255, 256, 257, 65535, 65536, 65537, 2**24, 128, 32768]))

    if straddle:
        val = st.sampled_from([100, 128, 200, 255, 30000, 32768, 40000, 65535])

    def step(nested=False):
        k = draw(st.sampled_from((["add", "add", "update_dict"] if straddle else ["add", "add", "update_list", "update_dict", "add_ngram"]) + ([] if nested else ["merge"] * (3 if straddle else 1))))
        s = {"op": k}
        if k == "merge":  # another sketch of the same configuration, filled by its own short history, is merged in
            s["hist"] = [step(True) for _ in range(draw(st.integers(0, 3)))]
            return s
        if k == "add":
            s["k"], s["v"] = draw(key), draw(val)
        elif k == "update_list":
            s["keys"] = draw(st.lists(key, max_size=5))
        elif k == "update_dict":
            s["items"] = [[x, draw(val)] for x in draw(st.lists(key, max_size=4, unique=True))]
        else:
            s["k"], s["n"] = draw(key), draw(st.integers(1, 6))
        if log:
            s["draws"] = draw(DRAWS)
        return s

    rounds = draw(st.integers(1, 3))
    hist = [[step() for _ in range(draw(st.integers(0, 6)))] for _ in range(rounds + 1)]
    # "pre": what already sits at the target path when save() is called (a checkpoint file is usually overwritten):
    # nothing, a sketch of the same shape with the same totals but other keys ("twin"), or bytes that are not a sketch
    loads = [{"via": draw(st.sampled_from(["class", "module"])), "shm": draw(st.sampled_from([False, False, True])), "pre": draw(st.sampled_from([None, None, "twin", "twin", "garbage"])),
              # the target path: an ordinary name, a base name of 254 bytes (NAME_MAX is 255), or a symbolic link to the file
              "name": draw(st.sampled_from(["plain", "plain", "plain", "long", "symlink"]))} for _ in range(rounds)]
    return {"cfg": cfg, "U": U, "hist": hist, "loads": loads, "n_records": draw(st.sampled_from([0, 0, 1, 7, 2**40])), "env": draw(st.sampled_from([None, None, None, None, "epoch0", "epoch_bad", "tz", "lang"]))}


def remap(s, perm):
    s = dict(s)
    if "k" in s:
        s["k"] = perm.get(s["k"], s["k"])
    if "keys" in s:
        s["keys"] = [perm.get(k, k) for k in s["keys"]]
    if "items" in s:
        s["items"] = [[perm.get(k, k), v] for k, v in s["items"]]
    if "hist" in s:
        s["hist"] = [remap(t, perm) for t in s["hist"]]
    return s


def do(sk, kind, s, cfg=None):
    if s["op"] == "merge":
        other = sut(make_sketch, cfg)
        for t in s["hist"]:
            do(other, kind, t, cfg)
        sut(sk.merge, other)
        return
    if kind in ("log8", "log16") and "draws" in s:
        plant(sk, s["draws"])
    if s["op"] == "add":
        sut(sk.add, s["k"], s["v"])
    elif s["op"] == "update_list":
        sut(sk.update, list(s["keys"]))
    elif s["op"] == "update_dict":
        sut(sk.update, {k: v for k, v in s["items"]})
    else:
        sut(sk.add_ngram, s["k"], s["n"])


PARAMS = {
    "linear": ["width", "depth"],
    "log8": ["width", "depth", "max_count", "num_reserved", "base"],
    "log16": ["width", "depth", "max_count", "num_reserved", "base"],
    "hh": ["width", "depth", "max_key_len", "phi"],
    "hll": ["p", "seed"],
}


def compare(a, b, kind, U, stage):
    if type(b) is not type(a) or type(a) is not CLASS_OF[kind]:
        raise Violation(f"{stage}: loaded object is {type(b).__name__}, original is {type(a).__name__}", "load-class")
    for p in PARAMS[kind]:
        x, y = getattr(a, p), getattr(b, p)
        if not (x == y):
            raise Violation(f"{stage}: parameter {p} differs: original {x!r} ({type(x).__name__}), loaded {y!r} ({type(y).__name__})", f"param-{p}")
    sa, sb = snapshot(a, kind), snapshot(b, kind)
    if not snap_equal(sa, sb):
        raise Violation(f"{stage}: public state differs in {snap_diff(sa, sb)}", "state-differs")
    if kind != "hll":
        if int(a.n_added()) != int(b.n_added()) or int(a.n_records()) != int(b.n_records()):
            raise Violation(f"{stage}: n_added/n_records differ: {int(a.n_added())}/{int(a.n_records())} vs {int(b.n_added())}/{int(b.n_records())}", "bookkeeping-differs")
    if kind in ("linear", "log8", "log16"):
        for k in U:
            qa, qb = sut(a.query, k), sut(b.query, k)
            if qa != qb or sut(a.__getitem__, k) != sut(b.__getitem__, k):
                raise Violation(f"{stage}: query({k!r}) differs: {qa} vs {qb}", "query-differs")
    elif kind == "hh":
        mkl = int(a.max_key_len)
        if none_threshold_ok(a):
            for kq in (1, 2, 3):
                la = [(k, int(c)) for k, c in sut(a.query, kq)]
                lb = [(k, int(c)) for k, c in sut(b.query, kq)]
                if la != lb:
                    raise Violation(f"{stage}: query({kq}) differs: {la} vs {lb}", "query-differs")
        for k in U:
            if len(k) <= mkl and int(sut(a.__getitem__, k)) != int(sut(b.__getitem__, k)):
                raise Violation(f"{stage}: hh[{k!r}] differs", "query-differs")
        # the default-threshold query comes first: it is the one answered from the candidate set that load() built
        for t in ([None] if none_threshold_ok(a) else []) + [0, 1]:
            qa = sorted((k, int(c)) for k, c in sut(a.query, 10**9, t))
            qb = sorted((k, int(c)) for k, c in sut(b.query, 10**9, t))
            if qa != qb:
                raise Violation(f"{stage}: query(inf,{t}) differs: {qa[:4]} vs {qb[:4]}", "query-differs")
            for kq in (1, 2, 3, 10**9):
                la = [(k, int(c)) for k, c in sut(a.query, kq, t)]
                lb = [(k, int(c)) for k, c in sut(b.query, kq, t)]
                if la != lb:  # both answers come from the same scan of equal tables, so even ties are ordered alike
                    raise Violation(f"{stage}: query({kq},{t}) differs: {la[:4]} vs {lb[:4]}", "query-differs")
    else:
        if not (sut(a.query) == sut(b.query)):
            raise Violation(f"{stage}: query() differs", "query-differs")


def load_via(kind, path, via, shm):
    if via == "module" and kind in ("linear", "log8", "log16"):
        return sut(cmmod.load, path, shm)
    return sut(CLASS_OF[kind].load, path, shm)


ENVS = {"epoch0": {"SOURCE_DATE_EPOCH": "0"}, "epoch_bad": {"SOURCE_DATE_EPOCH": "yesterday"}, "tz": {"TZ": "Pacific/Kiritimati"}, "lang": {"LC_ALL": "tr_TR.UTF-8", "LANG": "tr_TR.UTF-8"}}


def run_case(case):
    """the process environment is part of the environment a library may read: a few standard variables are set to
    unusual values for the duration of a case (the unchanged library reads none of them)"""
    env = ENVS.get(case.get("env"), {})
    saved = {k: os.environ.get(k) for k in env}
    os.environ.update(env)
    try:
        return _run_case(case)
    finally:
        for k, v in saved.items():
            if v is None:
                os.environ.pop(k, None)
            else:
                os.environ[k] = v


def _run_case(case):
    cfg = case["cfg"]
    from vf.world import reset_interference

    reset_interference()
    kind = cfg["kind"]
    U = case["U"]
    tmp = tempfile.mkdtemp(prefix="vf_c10_")
    try:
        orig = sut(make_sketch, cfg)
        applied = []
        for s in case["hist"][0]:
            do(orig, kind, s, cfg)
            applied.append(s)
        if kind != "hll":
            orig.n_added_records[1] = np.uint64(case["n_records"])
        for r, ld in enumerate(case["loads"]):
            path = os.path.join(tmp, f"r{r}.npz")
            if ld.get("name") == "long":
                path = os.path.join(tmp, f"r{r}_" + "n" * (254 - len(f"r{r}_") - 4) + ".npz")
            elif ld.get("name") == "symlink":
                os.symlink(os.path.join(tmp, f"target{r}.npz"), path)
            if ld.get("pre") == "twin":
                twin = sut(make_sketch, cfg)
                perm = {k: U[-1 - j] for j, k in enumerate(U)}
                for s in applied:
                    do(twin, kind, remap(s, perm), cfg)
                if kind != "hll":
                    twin.n_added_records[1] = orig.n_added_records[1]
                twin.save(path)
                del twin
            elif ld.get("pre") == "garbage":
                with open(path, "wb") as f:
                    f.write(b"PK\x03\x04 not a sketch" * 3)
            sut(orig.save, path)
            interfere(cfg)  # sketches of other configurations are built and used between save and load
            copy = load_via(kind, path, ld["via"], ld["shm"])
            interfere(cfg)
            compare(orig, copy, kind, U, f"round {r} after load({ld['via']}, shm={ld['shm']})")
            second = load_via(kind, path, "class", False)
            sut(second.merge, orig)  # must not raise: same parameters
            for s in case["hist"][r + 1]:
                do(orig, kind, s, cfg)
                do(copy, kind, s, cfg)
                applied.append(s)
            compare(orig, copy, kind, U, f"round {r} after a common continuation")
            del second
            orig = copy
        del orig, copy
    finally:
        shutil.rmtree(tmp, ignore_errors=True)


def nontrivial(case):
    cfg = case["cfg"]
    kind = cfg["kind"]
    nondefault = (kind in DEFAULTS and (cfg["max_count"], cfg["num_reserved"]) != DEFAULTS[kind]) or (kind == "hh" and cfg["phi"] is not None) or (kind == "hll" and cfg["seed"] != 0)
    return nondefault or bool(case["hist"][0]) or any(l["shm"] for l in case["loads"])


def _shard(arg):
    seed, shard, n_examples = arg
    rec = common.Recorder()
    holder = {}

    @given(case=cases())
    def test(case):
        holder["case"] = case
        run_case(case)
        cl = [f"kind={case['cfg']['kind']}", f"rounds={len(case['loads'])}"]
        if any(l["shm"] for l in case["loads"]):
            cl.append("shm_load")
        if any(l["via"] == "module" for l in case["loads"]) and case["cfg"]["kind"] in DEFAULTS or case["cfg"]["kind"] == "linear":
            cl.append("module_load")
        if case["cfg"]["kind"] == "hll" and case["cfg"]["seed"] >= 2**53:
            cl.append("hll_seed>=2^53")
        if case["cfg"].get("width") == 1:
            cl.append("width=1")
        if any(l.get("pre") == "twin" for l in case["loads"]):
            cl.append("saved_over_a_lookalike_sketch_file")
        if any(l.get("pre") == "garbage" for l in case["loads"]):
            cl.append("saved_over_a_file_that_is_not_a_sketch")
        if case.get("env"):
            cl.append("unusual_process_environment")
        if any(l.get("name") == "long" for l in case["loads"]):
            cl.append("file_name_of_254_bytes")
        if any(l.get("name") == "symlink" for l in case["loads"]):
            cl.append("saved_through_a_symbolic_link")
        if any(s_["op"] == "merge" for h in case["hist"] for s_ in h):
            cl.append("merge_in_history")
        if case["cfg"]["kind"] == "hh" and case["cfg"]["phi"] not in (None, 0.01, 0.5, 1.0):
            cl.append("phi_next_to_default")
        rec.case(case, nontrivial(case), cl)

    common.run_given(test, common.derive_seed(seed, "C10", shard), n_examples, holder, rec, retry=run_case)
    return rec


def cross_type(rec):
    """every class loader rejects files of the other counter types; countmin.load dispatches to the writer's class"""
    tmp = tempfile.mkdtemp(prefix="vf_c10x_")
    try:
        writers = {
            "linear": [lambda w, d: CountMinLinear(w, d)],
            "log16": [lambda w, d: CountMinLog16(w, d), lambda w, d: CountMinLog16(w, d, 70000, 3)],
            "log8": [lambda w, d: CountMinLog8(w, d), lambda w, d: CountMinLog8(w, d, 300, 0)],
        }
        n = 0
        for (w, d) in [(1, 1), (3, 2), (16, 4), (255, 1)]:
            for wk, makers in writers.items():
                for mk in makers:
                    sk = mk(w, d)
                    sk.add(b"abc", 5)
                    path = os.path.join(tmp, f"x{n}.npz")
                    n += 1
                    sk.save(path)
                    for shm in (False, True):
                        case = {"cross": True, "writer": wk, "shape": [w, d], "shm": shm}
                        try:
                            got = sut(cmmod.load, path, shm)
                        except Violation as v:
                            rec.violation(case, f"countmin.load on a file written by {CLASS_OF[wk].__name__}: {v.msg}", "load-dispatch")
                            continue
                        if type(got) is not CLASS_OF[wk]:
                            rec.violation(case, f"countmin.load returned {type(got).__name__} for a file written by {CLASS_OF[wk].__name__}", "load-dispatch")
                        del got
                        for lk in writers:
                            if lk == wk:
                                continue
                            case2 = dict(case, loader=lk)
                            try:
                                obj = CLASS_OF[lk].load(path, shm)
                            except Exception:
                                rec.case(case2, True, ["cross_type_rejected"])
                                continue
                            rec.violation(case2, f"{CLASS_OF[lk].__name__}.load accepted a file written by {CLASS_OF[wk].__name__} (shape {w}x{d}, shared_memory={shm}) and returned {type(obj).__name__}", "cross-type-accepted")
                            del obj
    finally:
        shutil.rmtree(tmp, ignore_errors=True)


def _phi_grid(arg):
    """Directed: default-phi heavy hitters at the default-threshold boundary.  For every width in the range
    and n_added = k*width, a key holding exactly k-1 and one holding k: the loaded copy (which receives phi
    explicitly) must answer query() like the original."""
    lo, hi = arg
    rec = common.Recorder()
    tmp = tempfile.mkdtemp(prefix="vf_c10g_")
    try:
        for width in range(lo, hi):
            for k in (2, 3, 5):
                cfg = {"kind": "hh", "width": width, "depth": 1, "max_key_len": 4, "phi": None}
                sk = make_sketch(cfg)
                n = k * width
                sk.add(b"A", k - 1)
                sk.add(b"B", k)
                rest = n - (2 * k - 1)
                if rest < 0:
                    continue
                if rest:
                    sk.add(b"C", rest)
                path = os.path.join(tmp, f"g{width}_{k}.npz")
                sk.save(path)
                case = {"phi_grid": True, "width": width, "k": k}
                try:
                    cp = sut(HeavyHitters.load, path)
                    compare(sk, cp, "hh", [b"A", b"B", b"C"], f"default-phi grid width={width} n_added={n}")
                except Violation as v:
                    rec.violation(case, v.msg, v.signature)
                    return rec
                os.unlink(path)
                rec.case(case, True, ["default_phi_grid"])
    finally:
        shutil.rmtree(tmp, ignore_errors=True)
    return rec


def _hh_ties_task(arg):
    """Heavy hitters with many tied counts and eroded cells (unit adds of a 5-key alphabet into width 2..5, depth 2..3):
    the very first default-threshold query(k) of the loaded copy must equal the original's, k = 1..4."""
    import random

    seed, n = arg
    rec = common.Recorder()
    r = random.Random(seed)
    tmp = tempfile.mkdtemp(prefix="vf_c10t_")
    keys = [b"a", b"b", b"c", b"d", b"e", b"a\0"]
    try:
        for t in range(n):
            w, d = r.randint(2, 5), r.randint(2, 3)
            stream = [r.choice(keys) for _ in range(r.randint(4, 16))]
            sk = HeavyHitters(w, d, 4)
            for k in stream:
                sk.add(k)
            path = os.path.join(tmp, "t.npz")
            sk.save(path)
            case = {"hh_ties": True, "width": w, "depth": d, "stream": stream}
            try:
                cp = sut(HeavyHitters.load, path)
                for kq in (1, 2, 3, 4):
                    la = [(k, int(c)) for k, c in sut(sk.query, kq)]
                    lb = [(k, int(c)) for k, c in sut(cp.query, kq)]
                    if la != lb:
                        raise Violation(f"HeavyHitters({w},{d},4) after {len(stream)} unit adds: query({kq}) of the original is {la}, of the freshly loaded copy {lb}", "query-differs")
                compare(sk, cp, "hh", keys, "tied-counts stream")
            except Violation as v:
                rec.violation(case, v.msg, v.signature)
                return rec
            counts = sorted(int(c) for _, c in sk.query(10**9, 0))
            rec.case(case, len(counts) != len(set(counts)), ["hh_tie_streams"])
    finally:
        shutil.rmtree(tmp, ignore_errors=True)
    return rec


def _huge_task(arg):
    """a linear sketch whose table is exactly 2 GiB (width 2^26, depth 8): beyond the 32-bit limits of zip members"""
    rec = common.Recorder()
    case = {"huge_table": True}
    tmp = tempfile.mkdtemp(prefix="vf_c10h_")
    try:
        sk = CountMinLinear(2**26, 8)
        keys = [b"", b"\0", b"a", b"huge-table-key", b"\xff" * 9]
        for i, k in enumerate(keys):
            sk.add(k, 1000 + i)
        sk.n_added_records[1] = np.uint64(77)
        path = os.path.join(tmp, "h.npz")
        sut(sk.save, path)
        cp = sut(CountMinLinear.load, path)
        if (int(cp.width), int(cp.depth)) != (2**26, 8) or int(cp.n_added()) != int(sk.n_added()) or int(cp.n_records()) != 77:
            raise Violation("2 GiB linear table: parameters or bookkeeping differ after load", "bookkeeping-differs")
        if any(sut(cp.query, k) != sut(sk.query, k) for k in keys) or not np.array_equal(sk.cms, cp.cms):
            raise Violation("2 GiB linear table: loaded table differs from the saved one", "state-differs")
        rec.case(case, True, ["table_of_2_GiB"])
    except Violation as v:
        rec.violation(case, v.msg, v.signature)
    finally:
        shutil.rmtree(tmp, ignore_errors=True)
    return rec


def run(tier, seed, rec):
    cross_type(rec)
    if tier != "quick":
        common.pool_merge(_huge_task, [0], rec, nproc=1)
    common.pool_merge(_hh_ties_task, [(common.derive_seed(seed, "C10-ties", i), 250 if tier == "quick" else 4000) for i in range(16)], rec)
    common.pool_merge(_phi_grid, [(lo, lo + 25) for lo in range(1, 251 if tier == "quick" else 1001, 25)], rec)
    total, shards = (2400, 16) if tier == "quick" else (40000, 32)
    common.pool_merge(_shard, [(seed, i, total // shards) for i in range(shards)], rec)


def replay(case):
    if case.get("huge_table"):
        r = _huge_task(0)
        if r.violations:
            raise Violation(r.violations[0]["msg"], r.violations[0]["signature"])
        return
    if case.get("hh_ties"):
        sk = HeavyHitters(case["width"], case["depth"], 4)
        for k in case["stream"]:
            sk.add(k)
        d = tempfile.mkdtemp(prefix="vf_c10t_")
        try:
            sk.save(os.path.join(d, "t.npz"))
            cp = HeavyHitters.load(os.path.join(d, "t.npz"))
            for kq in (1, 2, 3, 4):
                if [(k, int(c)) for k, c in sk.query(kq)] != [(k, int(c)) for k, c in cp.query(kq)]:
                    raise Violation(f"query({kq}) differs between the original and the loaded copy", "query-differs")
        finally:
            shutil.rmtree(d, ignore_errors=True)
        return
    if case.get("phi_grid"):
        r = _phi_grid((case["width"], case["width"] + 1))
        if r.violations:
            raise Violation(r.violations[0]["msg"], r.violations[0]["signature"])
        return
    if case.get("cross"):
        r = common.Recorder()
        cross_type(r)
        for v in r.violations:
            raise Violation(v["msg"], v["signature"])
        return
    run_case(case)
