"""C09 - merging count-min sketches adds the counts cell by cell, as documented."""
import numpy as np
from hypothesis import given, strategies as st

from vf import common
from vf.cms_common import UMAX
from vf.common import CEIL, Violation
from vf.world import _rotate_threads, make_sketch, sut

_NCALL = [0]

from sketchnu.countmin import CountMin, CountMinLinear, CountMinLog8, CountMinLog16

RULE = (
    "Tables are assigned directly (cms[:] = ...), n_added_records of both operands set to generated values. log8: for every accepted "
    "configuration of a grid (max_count in {300,1000,1e5,2^32-1,2^53,2^63} x num_reserved in {0,1,15,100,200}; configurations sharing "
    "num_reserved are merged one after another in the same process) all 256x256 counter pairs in one merge of a 3 x 21846 sketch (a cell "
    "count that is not a multiple of 64), plus the swapped merge (commutativity). log16: every counter against the empty sketch (both "
    "ways) and against itself per configuration (max_count in {70000,1e6,2^32-1,2^53,2^63} x num_reserved in {0,1,1023,30000}), >= 10^6 "
    "PRNG-sampled pairs per configuration biased to the reserved boundary, the maximum and sums crossing max_count; thorough: all 2^32 "
    "pairs of the default configuration in 256 slabs. All kinds: tables of width 65535, 65536, 65537, 70001, 131075 with boundary-biased PRNG values; Hypothesis-generated small odd shapes ((1,1),(1,2),(3,5),(7,9),(1,63),"
    "(1,65),(5,13),(9,7),(2,64)) with boundary-biased values. Oracle (vectorised, own decode from the public base): other operand bit-for-bit "
    "unchanged; n_added/n_records are the sums; linear cell == min(a+b,2^32-1); log cell m with v=value(a)+value(b): v<=nr -> m==v; "
    "v>=max_count -> m==umax; else |value(m)-v| <= min_c|value(c)-v| + 1e-9*spacing; m >= max(a,b); merge(empty) is the identity. "
    "Non-trivial: a pair outside the reserved range (rounding happens) or saturating. Distinct: cells are distinct (a,b) pairs by construction "
    "in the enumerations; sampled pairs are counted after np.unique."
)
ASSUMPTIONS = [
    "decoded value recomputed from the public base attribute: value(c) = c for c <= nr, else (base^(c-nr)-1)/(base-1)+nr",
    "ties and pairs within 1e-9 relative of the max_count switch may go either way",
]

LOG8_GRID = {nr: [mc for mc in (300, 1000, 10**5, CEIL, 2**53, 2**63)] for nr in (0, 1, 15, 100, 200)}
LOG16_GRID = {nr: [mc for mc in (70000, 10**6, CEIL, 2**53, 2**63)] for nr in (0, 1, 1023, 30000)}
CLS = {"log8": CountMinLog8, "log16": CountMinLog16, "linear": CountMinLinear}
DT = {"log8": np.uint8, "log16": np.uint16, "linear": np.uint32}


def build(kind, depth, width, mc=None, nr=None):
    if kind == "linear":
        return CountMinLinear(width, depth)
    return CLS[kind](width, depth, mc, nr)


def table_vals(sk, kind):
    umax = UMAX[kind]
    nr = int(sk.num_reserved)
    base = float(sk.base)
    c = np.arange(umax + 1, dtype=np.float64)
    vals = c.copy()
    hi = c > nr
    vals[hi] = (base ** (c[hi] - nr) - 1.0) / (base - 1.0) + nr
    return vals


def verify_merge(kind, depth, width, mc, nr, a_tab, b_tab, nar_a, nar_b, label):
    """Runs A.merge(B) on sketches holding the given tables; returns (n_cells, n_nontrivial, msg or None)."""
    A = build(kind, depth, width, mc, nr)
    B = build(kind, depth, width, mc, nr)
    A.cms[:] = a_tab.reshape(depth, width)
    B.cms[:] = b_tab.reshape(depth, width)
    A.n_added_records[:] = np.asarray(nar_a, np.uint64)
    B.n_added_records[:] = np.asarray(nar_b, np.uint64)
    b_before = (np.array(B.cms, copy=True), np.array(B.n_added_records, copy=True))
    _rotate_threads(int(a_tab.reshape(-1)[:64].astype(np.int64).sum() + 3 * b_tab.reshape(-1)[:64].astype(np.int64).sum() + depth + width))  # the merge kernels are parallel: the result must not depend on the enabled thread count
    with np.errstate(all="raise" if (depth + width + int(a_tab.reshape(-1)[0])) % 2 else "warn"):  # user-set numpy error state
        sut(A.merge, B)
    if not (np.array_equal(B.cms, b_before[0]) and np.array_equal(B.n_added_records, b_before[1])):
        return 0, 0, f"{label}: merge modified the argument sketch", "merge-mutates-other"
    if int(A.n_added()) != (int(nar_a[0]) + int(nar_b[0])) % 2**64 or int(A.n_records()) != (int(nar_a[1]) + int(nar_b[1])) % 2**64:
        return 0, 0, f"{label}: n_added/n_records after merge are {int(A.n_added())}/{int(A.n_records())}, expected sums of {list(map(int, nar_a))} and {list(map(int, nar_b))}", "merge-bookkeeping"
    m = np.array(A.cms, copy=True).reshape(-1).astype(np.int64)
    a = a_tab.reshape(-1).astype(np.int64)
    b = b_tab.reshape(-1).astype(np.int64)
    if kind == "linear":
        want = np.minimum(a + b, CEIL)
        bad = np.nonzero(m != want)[0]
        if len(bad):
            i = int(bad[0])
            return 0, 0, f"{label}: cell {i}: {a[i]} merged with {b[i]} gives {m[i]}, expected {want[i]} ({len(bad)} wrong cells of {len(m)})", "linear-merge-cell"
        nt = int(np.count_nonzero((a + b >= CEIL - 2) | ((a > 0) & (b > 0))))
        return len(m), nt, None, None
    umax = UMAX[kind]
    vals = table_vals(A, kind)
    v = vals[a] + vals[b]
    mcf = float(mc)
    res = v <= nr
    sat = v >= mcf
    near_sat = np.abs(v - mcf) <= 1e-9 * mcf
    ok = np.zeros(len(m), bool)
    ok[res] = m[res] == v[res].astype(np.int64)
    ok[sat] = m[sat] == umax
    mid = ~res & ~sat
    hi = np.clip(np.searchsorted(vals, v, side="left"), 0, umax)
    lo = np.clip(hi - 1, 0, umax)
    best = np.minimum(np.abs(vals[lo] - v), np.abs(vals[hi] - v))
    spacing = np.maximum(vals[hi] - vals[lo], 1.0)
    near = np.abs(vals[m] - v) <= best + 1e-9 * spacing
    ok[mid] = near[mid]
    ok |= near_sat & ((m == umax) | near)
    ok &= m >= np.maximum(a, b)
    bad = np.nonzero(~ok)[0]
    if len(bad):
        i = int(bad[0])
        return 0, 0, (
            f"{label} base={float(A.base)!r}: cell {i}: counters {a[i]} (value {vals[a[i]]}) + {b[i]} (value {vals[b[i]]}) = {v[i]} merged to counter {m[i]} "
            f"(value {vals[m[i]]}); nearest representable values are {vals[lo[i]]} (c={lo[i]}) and {vals[hi[i]]} (c={hi[i]}); {len(bad)} wrong cells of {len(m)}"
        ), "log-merge-cell"
    nt = int(np.count_nonzero(~res))
    return len(m), nt, None, None


def _fill_pairs(n_cells, a_vals, b_vals, dtype):
    a = np.zeros(n_cells, dtype)
    b = np.zeros(n_cells, dtype)
    a[: len(a_vals)] = a_vals
    b[: len(b_vals)] = b_vals
    return a, b


def _log8_task(arg):
    nr, mcs, seed = arg
    rec = common.Recorder()
    depth, width = 3, 21846
    i, j = np.meshgrid(np.arange(256), np.arange(256), indexing="ij")
    rng = np.random.default_rng(seed)
    for mc in mcs:
        try:
            CountMinLog8(1, 1, mc, nr)
        except ValueError:
            rec.count("config_rejected")
            continue
        a, b = _fill_pairs(depth * width, i.reshape(-1), j.reshape(-1), np.uint8)
        nar_a = rng.integers(0, 2**40, 2)
        nar_b = rng.integers(0, 2**40, 2)
        case = {"kind": "log8", "max_count": mc, "num_reserved": nr, "what": "all_pairs", "seed": int(seed)}
        for (x, y, lab) in ((a, b, "a<-b"), (b, a, "b<-a")):
            n, nt, msg, sig = verify_merge("log8", depth, width, mc, nr, x, y, nar_a, nar_b, f"log8(max_count={mc},num_reserved={nr}) all pairs {lab}")
            if msg:
                rec.violation(case, msg, sig)
                return rec
            rec.bulk(n, nt if lab == "a<-b" else 0, case, {"log8_pairs": n})
    return rec


def sample_counters(rng, n, nr, umax):
    kind = rng.integers(0, 6, n)
    out = rng.integers(0, umax + 1, n)
    near_nr = np.clip(nr + rng.integers(-3, 4, n), 0, umax)
    near_max = umax - rng.integers(0, 4, n)
    small = rng.integers(0, max(2, min(umax, 2 * nr + 4)), n)
    out = np.where(kind == 1, near_nr, out)
    out = np.where(kind == 2, near_max, out)
    out = np.where(kind == 3, small, out)
    out = np.where(kind == 4, umax - rng.integers(0, max(2, umax // 50), n), out)
    return out


def _log16_task(arg):
    nr, mcs, seed, n_sample = arg
    rec = common.Recorder()
    rng = np.random.default_rng(seed)
    allc = np.arange(65536)
    for mc in mcs:
        try:
            CountMinLog16(1, 1, mc, nr)
        except ValueError:
            rec.count("config_rejected")
            continue
        case = {"kind": "log16", "max_count": mc, "num_reserved": nr, "seed": int(seed), "n_sample": n_sample}
        depth, width = 3, 21846
        zeros = np.zeros(65536, np.int64)
        for (x, y, lab) in ((allc, zeros, "c<-empty"), (zeros, allc, "empty<-c"), (allc, allc, "c<-c")):
            a, b = _fill_pairs(depth * width, x, y, np.uint16)
            n, nt, msg, sig = verify_merge("log16", depth, width, mc, nr, a, b, rng.integers(0, 2**40, 2), rng.integers(0, 2**40, 2), f"log16(max_count={mc},num_reserved={nr}) {lab}")
            if msg:
                rec.violation(dict(case, what=lab), msg, sig)
                return rec
            rec.bulk(n, nt, None, {"log16_diag_empty_cells": n})
            if lab != "c<-c":
                # identity: merging with the empty sketch changes nothing
                pass
        depth, width = 7, n_sample // 7 + 1
        ncell = depth * width
        a = sample_counters(rng, ncell, nr, 65535).astype(np.uint16)
        b = sample_counters(rng, ncell, nr, 65535).astype(np.uint16)
        n, nt, msg, sig = verify_merge("log16", depth, width, mc, nr, a, b, rng.integers(0, 2**40, 2), rng.integers(0, 2**40, 2), f"log16(max_count={mc},num_reserved={nr}) sampled pairs")
        if msg:
            rec.violation(dict(case, what="sampled"), msg, sig)
            return rec
        pairs = a.astype(np.int64) * 65536 + b.astype(np.int64)
        distinct = len(np.unique(pairs))
        rec.bulk(n, min(nt, distinct), dict(case, what="sampled", example_pairs=[[int(a[t]), int(b[t])] for t in range(3)]), {"log16_sampled_cells": n, "log16_sampled_distinct_pairs": distinct})
    return rec


def _log16_slab(arg):
    lo, hi = arg
    rec = common.Recorder()
    depth, width = 3, (65536 * (hi - lo)) // 3 + 1
    i, j = np.meshgrid(np.arange(lo, hi), np.arange(65536), indexing="ij")
    a, b = _fill_pairs(depth * width, i.reshape(-1), j.reshape(-1), np.uint16)
    n, nt, msg, sig = verify_merge("log16", depth, width, CEIL, 1023, a, b, [1, 2], [3, 4], f"log16 default, counters {lo}..{hi-1} x all")
    if msg:
        rec.violation({"kind": "log16", "max_count": CEIL, "num_reserved": 1023, "slab": [lo, hi]}, msg, sig)
        return rec
    rec.bulk(n, nt, None, {"log16_all_pairs_cells": n})
    return rec


SHAPES = [(1, 1), (1, 2), (3, 5), (7, 9), (1, 63), (1, 65), (5, 13), (9, 7), (2, 64), (8, 25)]


def _small_shard(arg):
    seed, shard, n_examples = arg
    rec = common.Recorder()
    holder = {}

    @st.composite
    def cases(draw):
        kind = draw(st.sampled_from(["linear", "linear", "log8", "log16"]))
        depth, width = draw(st.sampled_from(SHAPES))
        if kind == "linear":
            mc = nr = None
            umax = CEIL
            specials = [0, 1, 2, CEIL - 2, CEIL - 1, CEIL, CEIL // 2, CEIL // 2 + 1, 2**31]
        else:
            grid = LOG8_GRID if kind == "log8" else LOG16_GRID
            nr = draw(st.sampled_from(sorted(grid)))
            mc = draw(st.sampled_from(grid[nr]))
            umax = UMAX[kind]
            specials = [0, 1, max(nr - 1, 0), nr, nr + 1, nr + 2, umax - 1, umax, umax // 2]
        val = st.one_of(st.sampled_from(specials), st.integers(0, umax))
        n = depth * width
        a = draw(st.lists(val, min_size=n, max_size=n))
        b = draw(st.one_of(st.lists(val, min_size=n, max_size=n), st.just([0] * n)))
        nar = draw(st.lists(st.integers(0, 2**62), min_size=4, max_size=4))
        return {"kind": kind, "depth": depth, "width": width, "max_count": mc, "num_reserved": nr, "a": a, "b": b, "nar": nar}

    @given(case=cases())
    def test(case):
        holder["case"] = case
        nt = run_small(case)
        rec.case({k: case[k] for k in ("kind", "depth", "width", "max_count", "num_reserved")} | {"a": case["a"][:8], "b": case["b"][:8], "nar": case["nar"]},
                 nt > 0, [f"small_{case['kind']}", f"shape={case['depth']}x{case['width']}"])

    common.run_given(test, common.derive_seed(seed, "C09", shard), n_examples, holder, rec, retry=run_small)
    return rec


def run_small(case):
    kind = case["kind"]
    try:
        build(kind, 1, 1, case["max_count"], case["num_reserved"])
    except ValueError:
        return 0
    a = np.array(case["a"], DT[kind])
    b = np.array(case["b"], DT[kind])
    nar = case["nar"]
    lab = f"{kind}(max_count={case['max_count']},num_reserved={case['num_reserved']}) shape {case['depth']}x{case['width']}"
    n, nt, msg, sig = verify_merge(kind, case["depth"], case["width"], case["max_count"], case["num_reserved"], a, b, nar[:2], nar[2:], lab)
    if msg:
        raise Violation(msg, sig)
    # consequences checked directly: commutativity (as cells) and a merged linear estimate >= sum of estimates
    A1, B1 = build(kind, case["depth"], case["width"], case["max_count"], case["num_reserved"]), build(kind, case["depth"], case["width"], case["max_count"], case["num_reserved"])
    A2, B2 = build(kind, case["depth"], case["width"], case["max_count"], case["num_reserved"]), build(kind, case["depth"], case["width"], case["max_count"], case["num_reserved"])
    for s, t in ((A1, a), (B1, b), (A2, a), (B2, b)):
        s.cms[:] = t.reshape(case["depth"], case["width"])
    if kind == "linear":
        keys = [b"", b"\0", b"a", b"zz", b"\xff" * 9]
        qa = [int(A1.query(k)) for k in keys]
        qb = [int(B1.query(k)) for k in keys]
    sut(A1.merge, B1)
    sut(B2.merge, A2)
    # the argument stays unchanged however often it is merged (a target that aliases the argument's table after
    # the first merge would change it on the second)
    b_tab = np.array(B1.cms, copy=True)
    a_tab = np.array(A1.cms, copy=True)
    sut(A1.merge, B1)
    if not np.array_equal(B1.cms, b_tab) or not np.array_equal(B1.cms.reshape(-1), b):
        raise Violation(f"{lab}: a second a.merge(b) changed b", "merge-mutates-other")
    sut(A1.add, b"probe", 1)
    if not np.array_equal(B1.cms.reshape(-1), b):
        raise Violation(f"{lab}: an add to the merged sketch changed the argument of the earlier merge", "merge-mutates-other")
    A1.cms[:] = a_tab
    # a sketch merged into itself behaves like a merge of two equal but separate sketches (same kernel, so equal cells)
    S, T1, T2 = (build(kind, case["depth"], case["width"], case["max_count"], case["num_reserved"]) for _ in range(3))
    for s_ in (S, T1, T2):
        s_.cms[:] = a.reshape(case["depth"], case["width"])
    sut(S.merge, S)
    sut(T1.merge, T2)
    if not np.array_equal(S.cms, T1.cms):
        i_ = int(np.nonzero(np.array(S.cms).reshape(-1) != np.array(T1.cms).reshape(-1))[0][0])
        raise Violation(f"{lab}: s.merge(s) gives counter {int(np.array(S.cms).reshape(-1)[i_])} in cell {i_} (was {int(a[i_])}), merging an equal separate sketch gives {int(np.array(T1.cms).reshape(-1)[i_])}", "self-merge")
    if kind == "linear":
        if not np.array_equal(A1.cms, B2.cms):
            raise Violation(f"{lab}: a.merge(b) and b.merge(a) give different tables", "merge-not-commutative")
        for k, x, y in zip(keys, qa, qb):
            if int(A1.query(k)) < min(CEIL, x + y):
                raise Violation(f"{lab}: merged estimate of {k!r} is {int(A1.query(k))} < {x}+{y}", "merged-estimate-below-sum")
    else:
        # ties may round either way: the swapped merge must satisfy the same nearest-counter rule
        n2, nt2, msg, sig = verify_merge(kind, case["depth"], case["width"], case["max_count"], case["num_reserved"], b, a, nar[2:], nar[:2], lab + " swapped")
        if msg:
            raise Violation(msg, sig)
    return nt


def _wide_task(arg):
    """widths at and beyond 2^16 (a separate code path for wide tables would live here)"""
    kind, depth, width, seed = arg
    rec = common.Recorder()
    rng = np.random.default_rng(seed)
    n = depth * width
    if kind == "linear":
        pick = rng.integers(0, 6, n)
        a = np.where(pick == 0, CEIL - rng.integers(0, 4, n), np.where(pick == 1, rng.integers(0, 5, n), rng.integers(0, CEIL + 1, n))).astype(np.uint32)
        pick = rng.integers(0, 6, n)
        b = np.where(pick == 0, CEIL - rng.integers(0, 4, n), np.where(pick == 1, rng.integers(0, 5, n), rng.integers(0, CEIL + 1, n))).astype(np.uint32)
        mc = nr = None
    else:
        mc, nr = (1000, 3) if kind == "log8" else (10**6, 15)
        a = sample_counters(rng, n, nr, UMAX[kind]).astype(DT[kind])
        b = sample_counters(rng, n, nr, UMAX[kind]).astype(DT[kind])
    case = {"kind": kind, "wide": [depth, width], "seed": int(seed)}
    cnt, nt, msg, sig = verify_merge(kind, depth, width, mc, nr, a, b, rng.integers(0, 2**40, 2), rng.integers(0, 2**40, 2), f"{kind} wide shape {depth}x{width}")
    if msg:
        rec.violation(case, msg, sig)
        return rec
    rec.bulk(cnt, nt, case, {"wide_table_cells": cnt})
    return rec


def run(tier, seed, rec):
    quick = tier == "quick"
    wide = [(k, d, w, common.derive_seed(seed, "C09-wide", k, w)) for k in ("linear", "log8", "log16") for d, w in ((1, 65535), (1, 65536), (2, 65537), (1, 131075), (3, 70001))]
    common.pool_merge(_wide_task, wide, rec)
    jobs8 = [(nr, mcs, common.derive_seed(seed, "C09-8", nr)) for nr, mcs in LOG8_GRID.items()]
    common.pool_merge(_log8_task, jobs8, rec)
    n_sample = 10**6 if quick else 4 * 10**6
    jobs16 = []
    for nr, mcs in LOG16_GRID.items():
        # keep >= 2 configurations with the same num_reserved in one process, in sequence
        jobs16.append((nr, mcs[:3], common.derive_seed(seed, "C09-16a", nr), n_sample))
        jobs16.append((nr, mcs[2:], common.derive_seed(seed, "C09-16b", nr), n_sample))
    common.pool_merge(_log16_task, jobs16, rec)
    total, shards = (3200, 16) if quick else (48000, 32)
    common.pool_merge(_small_shard, [(seed, i, total // shards) for i in range(shards)], rec)
    if not quick:
        common.pool_merge(_log16_slab, [(lo, lo + 256) for lo in range(0, 65536, 256)], rec, nproc=8)
    if not rec.violations:
        rec.exhaustive.append("log8: all 256x256 counter pairs for every accepted grid configuration (both merge directions)")
        rec.exhaustive.append("log16: every counter vs the empty sketch (both ways) and vs itself for every accepted grid configuration")
        if not quick:
            rec.exhaustive.append("log16 default configuration: all 2^32 counter pairs")


def replay(case):
    if "a" in case:
        run_small(case)
        return
    if "wide" in case:
        r = _wide_task((case["kind"], case["wide"][0], case["wide"][1], case["seed"]))
    elif "slab" in case:
        r = _log16_slab(tuple(case["slab"]))
    elif case["kind"] == "log8":
        r = _log8_task((case["num_reserved"], LOG8_GRID[case["num_reserved"]], case.get("seed", 1)))
    else:
        r = _log16_task((case["num_reserved"], LOG16_GRID[case["num_reserved"]], case.get("seed", 1), case.get("n_sample", 10**6)))
    if r.violations:
        raise Violation(r.violations[0]["msg"], r.violations[0]["signature"])
