"""Hand-written mutants for sensitivity runs (tools/mutants.py).  Each keeps the repository's
51 tests green (argued or checked) and must be killed by the listed checks' quick tier."""

CM = "sketchnu/countmin.py"
HH = "sketchnu/heavyhitters.py"
HL = "sketchnu/hyperloglog.py"
HS = "sketchnu/hashes.py"
HP = "sketchnu/helpers.py"

MUTANTS = [
    # ---- C01
    dict(name="c01-drop-linear-cap", props=["C01", "C18"], edits=[(CM, "    value = min(value, uint_maxval - min_count)\n", "")]),
    dict(name="c01-merge-max", props=["C01", "C09"], edits=[(CM, "                cms[row, col] += other_cms[row, col]\n", "                cms[row, col] = max(cms[row, col], other_cms[row, col])\n")]),
    dict(name="c01-query-max", props=["C01"], edits=[(CM, """    min_count = uint_maxval
    for row in range(depth):
        buckets[row] = fasthash64(key, row) % width
        count = cms[row, buckets[row]]
        if count < min_count:
            min_count = count
    return min_count


@njit(
    types.void(
        uint32[:, :],""", """    min_count = uint32(0)
    for row in range(depth):
        buckets[row] = fasthash64(key, row) % width
        count = cms[row, buckets[row]]
        if count > min_count:
            min_count = count
    return min_count


@njit(
    types.void(
        uint32[:, :],""")]),
    dict(name="c01-dict-ignores-values", props=["C01", "C12"], edits=[(CM, """            for key, value in keys.items():
                self.add(key, value)""", """            for key, value in keys.items():
                self.add(key)""")]),
    dict(name="c01-merge-wraps", props=["C01", "C09", "C18"], edits=[(CM, """            if other_cms[row, col] > uint_maxval - cms[row, col]:
                cms[row, col] = uint_maxval
            else:
                cms[row, col] += other_cms[row, col]""", """            cms[row, col] += other_cms[row, col]""")]),
    dict(name="c01-ngram-skips-last-window", props=["C01", "C12"], edits=[(CM, """        for i in range(key_len - (ngram - uint64(1))):
            _add_linear(""", """        for i in range(key_len - ngram):
            _add_linear(""")]),
    # ---- C11
    dict(name="c11-fh32-shift31", props=["C11"], edits=[(HS, "return uint32(h - (h >> 32))", "return uint32(h - (h >> 31))")]),
    dict(name="c11-fh64-tail7-skip", props=["C11"], edits=[(HS, "        v = _xor_shiftl(v, tail[6], 48)\n", "")]),
    dict(name="c11-murmur-tail2-order", props=["C11"], edits=[(HS, """    elif switch_len == 2:
        k1 = _xor32(k1, _shift32l(tail[1], 8))""", """    elif switch_len == 2:
        k1 = _xor32(k1, _shift32l(tail[1], 16))""")]),
    dict(name="c11-fh64-len-mod-256", props=["C11", "C14"], edits=[(HS, "    h = seed ^ (key_len * m)", "    h = seed ^ ((key_len & uint64(255)) * m)")]),
    # ---- C02
    dict(name="c02-nlz-zero-remainder", props=["C02"], edits=[(HL, "    return n - uint8(x)\n", "    if x == zero:\n        return n - uint8(1)\n    return n - uint8(x)\n")]),
    dict(name="c02-merge-skip-last-register", props=["C02"], edits=[(HL, "    for i in range(m):\n        registers[i] = max(registers[i], other_registers[i])", "    for i in range(m - 1):\n        registers[i] = max(registers[i], other_registers[i])")]),
    dict(name="c02-rank-cap-32", props=["C02", "C17"], edits=[(HL, "    rank = _n_leading_zeros64(bits) - p + 1\n", "    rank = min(_n_leading_zeros64(bits) - p + 1, 32)\n")]),
    dict(name="c02-ngram-skips-last-window", props=["C02", "C12"], edits=[(HL, "        for i in range(key_len - (ngram - uint64(1))):\n            _add(registers, seed, p, m, key[i : i + ngram])", "        for i in range(key_len - ngram):\n            _add(registers, seed, p, m, key[i : i + ngram])")]),
    dict(name="c02-add-value0-skipped", props=["C02", "C12"], edits=[(HL, "        _add(self.registers, self.seed, self.p, self.m, key)\n", "        if value:\n            _add(self.registers, self.seed, self.p, self.m, key)\n")]),
    dict(name="c02-nlz-shift8-branch", props=["C02"], edits=[(HL, "    y = x >> uint64(8)\n    if y != zero:\n        n = n - uint8(8)", "    y = x >> uint64(8)\n    if y > uint64(1):\n        n = n - uint8(8)")]),
    dict(name="c02-seed-truncated-32", props=["C02", "C10", "C15"], edits=[(HL, "    hash_val = fasthash64(key, seed)\n", "    hash_val = fasthash64(key, seed & uint64(0xFFFFFFFF))\n")]),
]
