"""Hand-written mutants for sensitivity runs (tools/mutants.py).  Each keeps the repository's
51 tests green (argued or checked) and must be killed by the listed checks' quick tier."""

CM = "sketchnu/countmin.py"
HH = "sketchnu/heavyhitters.py"
HL = "sketchnu/hyperloglog.py"
HS = "sketchnu/hashes.py"
HP = "sketchnu/helpers.py"

MUTANTS = [
    # ---- C01
    dict(name="c01-drop-linear-cap", props=["C01", "C18"], edits=[(CM, "    value = min(value, uint_maxval - min_count)\n", "")]),
    dict(name="c01-merge-max", props=["C01", "C09"], edits=[(CM, "                cms[row, col] += other_cms[row, col]\n", "                cms[row, col] = max(cms[row, col], other_cms[row, col])\n")]),
    dict(name="c01-query-max", props=["C01"], edits=[(CM, """    min_count = uint_maxval
    for row in range(depth):
        buckets[row] = fasthash64(key, row) % width
        count = cms[row, buckets[row]]
        if count < min_count:
            min_count = count
    return min_count


@njit(
    types.void(
        uint32[:, :],""", """    min_count = uint32(0)
    for row in range(depth):
        buckets[row] = fasthash64(key, row) % width
        count = cms[row, buckets[row]]
        if count > min_count:
            min_count = count
    return min_count


@njit(
    types.void(
        uint32[:, :],""")]),
    dict(name="c01-dict-ignores-values", props=["C01", "C12"], edits=[(CM, """            for key, value in keys.items():
                self.add(key, value)""", """            for key, value in keys.items():
                self.add(key)""")]),
    dict(name="c01-merge-wraps", props=["C01", "C09", "C18"], edits=[(CM, """            if other_cms[row, col] > uint_maxval - cms[row, col]:
                cms[row, col] = uint_maxval
            else:
                cms[row, col] += other_cms[row, col]""", """            cms[row, col] += other_cms[row, col]""")]),
    dict(name="c01-ngram-skips-last-window", props=["C01", "C12"], edits=[(CM, """        for i in range(key_len - (ngram - uint64(1))):
            _add_linear(""", """        for i in range(key_len - ngram):
            _add_linear(""")]),
    # ---- C11
    dict(name="c11-fh32-shift31", props=["C11"], edits=[(HS, "return uint32(h - (h >> 32))", "return uint32(h - (h >> 31))")]),
    dict(name="c11-fh64-tail7-skip", props=["C11"], edits=[(HS, "        v = _xor_shiftl(v, tail[6], 48)\n", "")]),
    dict(name="c11-murmur-tail2-order", props=["C11"], edits=[(HS, """    elif switch_len == 2:
        k1 = _xor32(k1, _shift32l(tail[1], 8))""", """    elif switch_len == 2:
        k1 = _xor32(k1, _shift32l(tail[1], 16))""")]),
    dict(name="c11-fh64-len-mod-256", props=["C11"], edits=[(HS, "    h = seed ^ (key_len * m)", "    h = seed ^ ((key_len & uint64(255)) * m)")]),
    # ---- C02
    dict(name="c02-nlz-zero-remainder", props=["C02"], edits=[(HL, "    return n - uint8(x)\n", "    if x == zero:\n        return n - uint8(1)\n    return n - uint8(x)\n")]),
    dict(name="c02-merge-skip-last-register", props=["C02"], edits=[(HL, "    for i in range(m):\n        registers[i] = max(registers[i], other_registers[i])", "    for i in range(m - 1):\n        registers[i] = max(registers[i], other_registers[i])")]),
    dict(name="c02-rank-cap-32", props=["C02"], edits=[(HL, "    rank = _n_leading_zeros64(bits) - p + 1\n", "    rank = min(_n_leading_zeros64(bits) - p + 1, 32)\n")]),
    dict(name="c02-ngram-skips-last-window", props=["C02", "C12"], edits=[(HL, "        for i in range(key_len - (ngram - uint64(1))):\n            _add(registers, seed, p, m, key[i : i + ngram])", "        for i in range(key_len - ngram):\n            _add(registers, seed, p, m, key[i : i + ngram])")]),
    dict(name="c02-add-value0-skipped", props=["C02"], edits=[(HL, "        _add(self.registers, self.seed, self.p, self.m, key)\n", "        if value:\n            _add(self.registers, self.seed, self.p, self.m, key)\n")]),
    dict(name="c02-nlz-shift8-branch", props=["C02"], edits=[(HL, "    y = x >> uint64(8)\n    if y != zero:\n        n = n - uint8(8)", "    y = x >> uint64(8)\n    if y > uint64(1):\n        n = n - uint8(8)")]),
    dict(name="c02-seed-truncated-32", props=["C02"], edits=[(HL, "    hash_val = fasthash64(key, seed)\n", "    hash_val = fasthash64(key, seed & uint64(0xFFFFFFFF))\n")]),
    # ---- C17 / C07
    dict(name="c17-5m-to-4m", props=["C17", "C07"], edits=[(HL, "        if cardinality <= float64(5 * m):", "        if cardinality <= float64(4 * m):")]),
    dict(name="c17-bias-table-row-minus-1", props=["C17", "C07"], edits=[(HL, "        self.bias_data = bias_data[int(self.p) - 7, :]", "        self.bias_data = bias_data[int(self.p) - 8, :]")]),
    dict(name="c17-alpha-p16", props=["C17", "C07"], edits=[(HL, "        self.alpha = np.float64(0.7213 / (1.0 + 1.079 / self.m))", "        self.alpha = np.float64((0.7213 if self.p < 16 else 0.709) / (1.0 + 1.079 / self.m))")]),
    dict(name="c17-threshold-row-p-ge-12", props=["C17", "C07"], edits=[(HL, "        self.threshold = sub_algorithm_threshold[int(self.p) - 7]", "        self.threshold = sub_algorithm_threshold[min(int(self.p) - 7, 5)]")]),
    dict(name="c17-no-bias-when-zero-registers", props=["C17", "C07"], edits=[(HL, """            bias = np.interp(est, raw_estimate, bias_data)
            cardinality = est - bias""", """            cardinality = est""")]),
    dict(name="c17-linear-counting-uses-m-minus-1", props=["C17", "C07"], edits=[(HL, "    return float64(m) * np.log(float64(m) / float64(n_zero))", "    return float64(m) * np.log(float64(m - 1) / float64(n_zero))")]),
    # ---- heavy hitters: C03 / C04 / C13
    dict(name="hh-revert-f1-add", props=["C03", "C04"], edits=[(HH, "        if np.all(key_array == lhh[row, col]) and key_lens[row, col] == key_len:", "        if np.all(key_array == lhh[row, col]):")]),
    dict(name="hh-revert-f1-maxcount", props=["C03", "C04", "C13"], edits=[(HH, "            and key_lens[row, col] == key_len\n", "")]),
    dict(name="hh-add-replace-without-subtract", props=["C04"], edits=[(HH, "                lhh_count[row, col] = value - lhh_count[row, col]", "                lhh_count[row, col] = value")]),
    dict(name="hh-merge-mismatch-keeps-sum", props=["C03", "C04"], edits=[(HH, """                    lhh_count[row, col] = (
                        other_lhh_count[row, col] - lhh_count[row, col]
                    )""", """                    lhh_count[row, col] = (
                        other_lhh_count[row, col] + lhh_count[row, col]
                    )""")]),
    dict(name="hh-candidates-row0-only", props=["C04", "C13"], edits=[(HH, "        for row in range(self.depth):\n            for column in range(self.width):", "        for row in range(1):\n            for column in range(self.width):")]),
    dict(name="hh-cache-ignores-n-added", props=["C13"], edits=[(HH, "        if (self.n_added_sort < self.n_added()) or (self.threshold_sort != threshold):", "        if self.threshold_sort != threshold:")]),
    dict(name="hh-cache-ignores-threshold", props=["C13"], edits=[(HH, "        if (self.n_added_sort < self.n_added()) or (self.threshold_sort != threshold):", "        if self.n_added_sort < self.n_added():")]),
    dict(name="hh-most-common-k-plus-1", props=["C13"], edits=[(HH, "        return self.candidate_set.most_common(k)", "        return self.candidate_set.most_common(k + 1)")]),
    dict(name="hh-threshold-strict", props=["C13", "C04"], edits=[(HH, "                    if max_count >= threshold:", "                    if max_count > threshold:")]),
    dict(name="hh-add-saturation-dropped", props=["C18"], edits=[(HH, """            if value < uint_maxval - lhh_count[row, col]:
                lhh_count[row, col] += value
            else:
                lhh_count[row, col] = uint_maxval""", """            lhh_count[row, col] += value""")]),
    dict(name="hh-merge-keeps-equal-other", props=["C04"], edits=[(HH, "                if lhh_count[row, col] >= other_lhh_count[row, col]:", "                if lhh_count[row, col] > other_lhh_count[row, col] + uint32(1):")]),
    # ---- C05
    dict(name="c05-plain-update-linear", props=["C05"], edits=[(CM, """        count = cms[row, buckets[row]]
        if count < new_count:
            cms[row, buckets[row]] = new_count


@njit(
    types.void(
        uint32[:, :],
        uint64[:],
        uint64[:],
        uint64,
        uint64,
        uint32,
        types.Bytes(types.uint8, 1, "C"),
        uint64,""", """        count = cms[row, buckets[row]]
        if value > uint_maxval - count:
            cms[row, buckets[row]] = uint_maxval
        else:
            cms[row, buckets[row]] = count + value


@njit(
    types.void(
        uint32[:, :],
        uint64[:],
        uint64[:],
        uint64,
        uint64,
        uint32,
        types.Bytes(types.uint8, 1, "C"),
        uint64,""")]),
    dict(name="c05-plain-update-log8", props=["C05"], edits=[(CM, """    # Now update only those counters that are below the new value
    for row in range(depth):
        count = cms[row, buckets[row]]
        if count < new_count:
            cms[row, buckets[row]] = new_count

    return rand_ptr


@njit(
    uint64(
        uint8[:, :],""", """    # Now update only those counters that are below the new value
    delta = new_count - min_count
    for row in range(depth):
        count = cms[row, buckets[row]]
        if count <= uint_maxval - delta:
            cms[row, buckets[row]] = count + delta
        else:
            cms[row, buckets[row]] = uint_maxval

    return rand_ptr


@njit(
    uint64(
        uint8[:, :],""")]),
    dict(name="c05-log16-n-added-only-when-advanced", props=["C05"], edits=[(CM, """    # Track total number of elements added to the sketch
    n_added_records[0] += uint64(value)

    # This gets min_count AND updates buckets
    min_count = _query_log16(cms, buckets, width, depth, uint_maxval, key)

    new_count, rand_ptr = _log_counter(
        min_count, num_reserved, uint_maxval, base, rand_nums, rand_ptr, value
    )
    # Nothing to do
    if new_count == min_count:
        return rand_ptr
""", """    # This gets min_count AND updates buckets
    min_count = _query_log16(cms, buckets, width, depth, uint_maxval, key)

    new_count, rand_ptr = _log_counter(
        min_count, num_reserved, uint_maxval, base, rand_nums, rand_ptr, value
    )
    # Nothing to do
    if new_count == min_count:
        return rand_ptr

    # Track total number of elements added to the sketch
    n_added_records[0] += uint64(value)
""")]),
    dict(name="c06-deterministic-through-nr-plus-1", props=["C06"], edits=[(CM, "        if cprime < 0:\n            counter += one", "        if cprime < 2:\n            counter += one")]),
    # ---- C06
    dict(name="c06-prob-exponent-plus-1", props=["C06"], edits=[(CM, "            if rand < base ** (-cprime):", "            if rand < base ** (-(cprime + 1.0)):")]),
    dict(name="c06-rand-no-refill", props=["C06"], edits=[(CM, "        rand_batch[:] = np.random.rand(2048)\n", "")]),
    dict(name="c06-refill-half-range", props=["C06"], edits=[(CM, "        rand_batch[:] = np.random.rand(2048)\n", "        rand_batch[:] = np.random.rand(2048) * 0.5\n")]),
    dict(name="c06-log8-initial-batch-fixed-seed", props=["C06"], edits=[(CM, """        rng = np.random.default_rng()
        self.rng = np.random.default_rng(rng.integers(0, 2**63))
        self.rand_ptr = 0
        self.rand_nums = self.rng.random(2048)

        if shared_memory:
            cms_size = int(1 * width * depth)""", """        self.rng = np.random.default_rng(20220101)
        self.rand_ptr = 0
        self.rand_nums = self.rng.random(2048)

        if shared_memory:
            cms_size = int(1 * width * depth)""")]),
    dict(name="c06-log8-add-truncates-counter-growth", props=["C06"], edits=[(CM, "    # Reminder that this is a uint16 value so cast to uint8\n    new_count = uint8(new_count)\n", "    # Reminder that this is a uint16 value so cast to uint8\n    new_count = uint8(min(new_count, min_count + uint16(64)))\n")]),
    # ---- C09
    dict(name="c09-log16-always-round-down", props=["C09"], edits=[(CM, """                delta = v - vlower
                if delta / (vhigher - vlower) <= 0.5:
                    cms[row, col] = clower
                else:
                    cms[row, col] = clower + uint16(1)""", """                cms[row, col] = clower""")]),
    dict(name="c09-log8-merge-drops-n-records", props=["C09", "C08"], edits=[(CM, """                    cms[row, col] = clower + uint8(1)

    # Merge the special counters
    n_added_records[0] += other_n_added_records[0]
    n_added_records[1] += other_n_added_records[1]""", """                    cms[row, col] = clower + uint8(1)

    # Merge the special counters
    n_added_records[0] += other_n_added_records[0]""")]),
    dict(name="c09-log16-merge-drains-other", props=["C09"], edits=[(CM, """                if delta / (vhigher - vlower) <= 0.5:
                    cms[row, col] = clower
                else:
                    cms[row, col] = clower + uint16(1)""", """                if delta / (vhigher - vlower) <= 0.5:
                    cms[row, col] = clower
                else:
                    cms[row, col] = clower + uint16(1)
                other_cms[row, col] = 0""")]),
    dict(name="c09-log8-merge-takes-max-in-reserved", props=["C09", "C06"], edits=[(CM, """            if v <= num_reserved:
                cms[row, col] = uint8(v)""", """            if v <= num_reserved:
                cms[row, col] = max(cms[row, col], other_cms[row, col])""")]),
    dict(name="c09-linear-merge-skips-last-column-odd-width", props=["C09", "C01"], edits=[(CM, """    for row in prange(depth):
        for col in range(width):
            if other_cms[row, col] > uint_maxval - cms[row, col]:""", """    for row in prange(depth):
        for col in range(width - (width & 1) * (width > 1)):
            if other_cms[row, col] > uint_maxval - cms[row, col]:""")]),
    # ---- C10
    dict(name="c10-log8-load-drops-bookkeeping", props=["C10"], edits=[(CM, """            cms = CountMinLog8(*args, shared_memory=shared_memory)
            np.copyto(cms.cms, npzfile["cms"])
            np.copyto(cms.n_added_records, npzfile["n_added_records"])""", """            cms = CountMinLog8(*args, shared_memory=shared_memory)
            np.copyto(cms.cms, npzfile["cms"])""")]),
    dict(name="c10-log16-save-omits-num-reserved", props=["C10"], edits=[(CM, """            args=np.array([self.width, self.depth, self.max_count, self.num_reserved]),""", """            args=np.array([self.width, self.depth, self.max_count]),""")]),
    dict(name="c10-module-load-dispatch-swapped", props=["C10"], edits=[(CM, """    elif cms_dtype == np.uint16:
        return CountMinLog16.load(filename, shared_memory)
    elif cms_dtype == np.uint8:
        return CountMinLog8.load(filename, shared_memory)""", """    elif cms_dtype == np.uint16:
        return CountMinLog16.load(filename, shared_memory)
    else:
        return CountMinLinear.load(filename, shared_memory)""")]),
    dict(name="c10-hh-load-skips-key-lens", props=["C10", "C13"], edits=[(HH, """            np.copyto(hh.key_lens, npzfile["key_lens"])\n""", "")]),
    dict(name="c10-hh-phi-saved-as-float32", props=["C10"], edits=[(HH, """            phi = np.float64(args[3])""", """            phi = np.float64(np.float32(args[3]))""")]),
    dict(name="c10-hll-load-shm-skips-copy", props=["C10"], edits=[(HL, """            hll = HyperLogLog(*args, shared_memory=shared_memory)
            np.copyto(hll.registers, npzfile["hll"])""", """            hll = HyperLogLog(*args, shared_memory=shared_memory)
            if not shared_memory:
                np.copyto(hll.registers, npzfile["hll"])""")]),
    # ---- C15
    dict(name="c15-hll-no-seed-check", props=["C15"], edits=[(HL, "        if self.p != other.p or self.seed != other.seed:", "        if self.p != other.p:")]),
    dict(name="c15-hll-seed-compared-as-uint32", props=["C15"], edits=[(HL, "        if self.p != other.p or self.seed != other.seed:", "        if self.p != other.p or np.uint32(self.seed & np.uint64(0xFFFFFFFF)) != np.uint32(other.seed & np.uint64(0xFFFFFFFF)):")]),
    dict(name="c15-log8-no-max-count-check", props=["C15"], edits=[(CM, """            or self.max_count != other.max_count
            or self.num_reserved != other.num_reserved
        ):
            raise TypeError(
                "self and other have different width|depth|type|max_count|num_reserved"
            )

        _merge_log8(""", """            or self.num_reserved != other.num_reserved
        ):
            raise TypeError(
                "self and other have different width|depth|type|max_count|num_reserved"
            )

        _merge_log8(""")]),
    dict(name="c15-hh-no-max-key-len-check", props=["C15"], edits=[(HH, """            or self.depth != other.depth
            or self.max_key_len != other.max_key_len
        ):
            raise TypeError("self and other have different width | depth | max_key_len")""", """            or self.depth != other.depth
        ):
            raise TypeError("self and other have different width | depth | max_key_len")""")]),
    dict(name="c15-linear-type-check-after-counters", props=["C15"], edits=[(CM, """        if (
            self.width != other.width
            or self.depth != other.depth
            or self.uint_maxval != other.uint_maxval
        ):
            raise TypeError("self and other have different width | depth | type")

        _merge_linear(""", """        if self.width != other.width or self.depth != other.depth:
            raise TypeError("self and other have different width | depth | type")
        self.n_added_records[1] += other.n_added_records[1]
        if self.uint_maxval != other.uint_maxval:
            raise TypeError("self and other have different width | depth | type")
        self.n_added_records[1] -= other.n_added_records[1]

        _merge_linear(""")]),
    dict(name="c15-hh-raises-valueerror", props=["C15"], edits=[(HH, """            raise TypeError("self and other have different width | depth | max_key_len")""", """            raise ValueError("self and other have different width | depth | max_key_len")""")]),
    # ---- C20
    dict(name="c20-hll-load-falls-back-to-empty", props=["C20"], edits=[(HL, """        with np.load(filename) as npzfile:
            args = npzfile["args"]
            hll = HyperLogLog(*args, shared_memory=shared_memory)
            np.copyto(hll.registers, npzfile["hll"])

        return hll""", """        try:
            with np.load(filename) as npzfile:
                args = npzfile["args"]
                hll = HyperLogLog(*args, shared_memory=shared_memory)
                np.copyto(hll.registers, npzfile["hll"])
        except (OSError, ValueError, EOFError):
            # unreadable file: start from an empty sketch rather than failing the pipeline
            hll = HyperLogLog(shared_memory=shared_memory)

        return hll""")]),
    dict(name="c20-module-load-defaults-to-linear-on-error", props=["C20"], edits=[(CM, """    with np.load(filename) as npzfile:
        cms_dtype = npzfile["dtype"].dtype

    if cms_dtype == np.uint32:""", """    try:
        with np.load(filename) as npzfile:
            cms_dtype = npzfile["dtype"].dtype
    except Exception:
        if Path(filename).stat().st_size > 64:
            return CountMinLinear(1, 1, shared_memory)
        raise

    if cms_dtype == np.uint32:""")]),
    # ---- C16
    dict(name="c16-cms-attach-aligned-bookkeeping-offset", props=["C16", "C08"], edits=[(CM, """        self.n_added_records = np.frombuffer(
            existing_shm.buf[self.cms.nbytes :], np.uint64
        )""", """        off = (self.cms.nbytes + 7) // 8 * 8
        self.n_added_records = np.frombuffer(
            existing_shm.buf[off : off + 16], np.uint64
        ) if off + 16 <= len(existing_shm.buf) else np.zeros(2, np.uint64)""")]),
    dict(name="c16-hll-view-unlinks-on-del", props=["C16"], edits=[(HL, """                    self.existing_shm.close()
                except Exception as exc:
                    raise MemoryError(f"Failed to close existing_shm: {exc}")""", """                    self.existing_shm.close()
                    self.existing_shm.unlink()
                except Exception as exc:
                    raise MemoryError(f"Failed to close existing_shm: {exc}")""")]),
    dict(name="c16-hh-attach-count-offset-aligned-4", props=["C16", "C08"], edits=[(HH, """        start = end
        end += self.lhh_count.nbytes
        self.lhh_count = np.frombuffer(
            existing_shm.buf[start:end],
            np.uint32,
        ).reshape(self.depth, self.width)
        start = end
        end += self.key_lens.nbytes
        self.key_lens = np.frombuffer(
            existing_shm.buf[start:end],
            np.uint8,
        ).reshape(self.depth, self.width)
        start = end
        self.n_added_records = np.frombuffer(
            existing_shm.buf[start:],
            np.uint64,
        )

        # Now create class member""", """        start = (end + 3) // 4 * 4
        end = start + self.lhh_count.nbytes
        self.lhh_count = np.frombuffer(
            existing_shm.buf[start:end],
            np.uint32,
        ).reshape(self.depth, self.width)
        start = end
        end += self.key_lens.nbytes
        self.key_lens = np.frombuffer(
            existing_shm.buf[start:end],
            np.uint8,
        ).reshape(self.depth, self.width)
        start = end
        self.n_added_records = np.frombuffer(
            existing_shm.buf[start : start + 16],
            np.uint64,
        )

        # Now create class member""")]),
    # ---- C14
    dict(name="c14-linear-all-rows-seed-0", props=["C14"], edits=[(CM, """    min_count = uint_maxval
    for row in range(depth):
        buckets[row] = fasthash64(key, row) % width
        count = cms[row, buckets[row]]
        if count < min_count:
            min_count = count
    return min_count


@njit(
    types.void(
        uint32[:, :],""", """    min_count = uint_maxval
    for row in range(depth):
        buckets[row] = fasthash64(key, 0) % width
        count = cms[row, buckets[row]]
        if count < min_count:
            min_count = count
    return min_count


@njit(
    types.void(
        uint32[:, :],""")]),
    dict(name="c14-log8-seed-row-div-2", props=["C14"], edits=[(CM, """def _query_log8(cms, buckets, width, depth, uint_maxval, key):
    min_count = uint_maxval
    for row in range(depth):
        buckets[row] = fasthash64(key, row) % width""", """def _query_log8(cms, buckets, width, depth, uint_maxval, key):
    min_count = uint_maxval
    for row in range(depth):
        buckets[row] = fasthash64(key, row // 2) % width""")]),
    dict(name="c14-hh-rows-xor-of-one-hash", props=["C14"], edits=[(HH, """    n_added_records[0] += uint64(value)
    for row in range(depth):
        col = fasthash64(key, row) % width""", """    n_added_records[0] += uint64(value)
    h0 = fasthash64(key, 0)
    for row in range(depth):
        col = (h0 >> uint64(2 * row)) % width""")]),
    dict(name="c14-linear-row-seed-wraps-at-4", props=["C14"], edits=[(CM, """    min_count = uint_maxval
    for row in range(depth):
        buckets[row] = fasthash64(key, row) % width
        count = cms[row, buckets[row]]
        if count < min_count:
            min_count = count
    return min_count


@njit(
    types.void(
        uint32[:, :],""", """    min_count = uint_maxval
    for row in range(depth):
        buckets[row] = fasthash64(key, row & 3) % width
        count = cms[row, buckets[row]]
        if count < min_count:
            min_count = count
    return min_count


@njit(
    types.void(
        uint32[:, :],""")]),
    # ---- C08 / C19
    dict(name="c08-merge-pairs-overlap", props=["C08"], edits=[(HP, """            sketch1 = (sketch_type, sketch_args, sketch_array[i * 2].shm.name)
            sketch2 = (sketch_type, sketch_args, sketch_array[i * 2 + 1].shm.name)""", """            sketch1 = (sketch_type, sketch_args, sketch_array[i * 2].shm.name)
            sketch2 = (sketch_type, sketch_args, sketch_array[min(i * 2 + 1 + (n_to_merge > 4), n_to_merge - 1)].shm.name)""")]),
    dict(name="c08-merge-drops-carried-odd-sketch", props=["C08"], edits=[(HP, """        for i in range(0, n_to_merge, 2):
            new_sketch_array.append(sketch_array[i])""", """        for i in range(0, n_to_merge - (n_to_merge % 2) * (n_to_merge > 3), 2):
            new_sketch_array.append(sketch_array[i])""")]),
    dict(name="c08-n-records-only-first-sketch", props=["C08", "C19"], edits=[(HP, """            for local_sketch in local_sketches:
                try:
                    # Only the CMS & HH has n_records. Fails if HLL, but we don't care
                    local_sketch.n_added_records[1] += np.uint64(n_records)
                except:
                    pass""", """            for local_sketch in local_sketches[:1]:
                try:
                    # Only the CMS & HH has n_records. Fails if HLL, but we don't care
                    local_sketch.n_added_records[1] += np.uint64(n_records)
                except:
                    pass""")]),
    dict(name="c08-one-pill-too-few-for-many-workers", props=["C08"], edits=[(HP, """    for _ in range(n_workers):
        queue.put(None)""", """    for _ in range(min(n_workers, 7)):
        queue.put(None)""")]),
    dict(name="c08-worker-kwargs-dropped-after-first-item", props=["C08"], edits=[(HP, """                n_recs = process_q_item(q_item, *local_sketches, **kwargs)""", """                n_recs = process_q_item(q_item, *local_sketches, **kwargs)
                kwargs = {k: v for k, v in kwargs.items() if k != "bonus"}""")]),
    dict(name="c19-no-try-except-in-worker", props=["C19"], edits=[(HP, """            try:
                n_recs = process_q_item(q_item, *local_sketches, **kwargs)
            except Exception as exc:
                n_recs = 0
                msg = f"WORKER {worker_id:02} threw exception on {q_item}: {exc}"
                log_queue.put(
                    {
                        "level": "ERROR",
                        "text": msg,
                    }
                )""", """            n_recs = process_q_item(q_item, *local_sketches, **kwargs)""")]),
    dict(name="c19-failed-item-counts-previous-n-recs", props=["C19"], edits=[(HP, """            except Exception as exc:
                n_recs = 0
                msg""", """            except Exception as exc:
                msg""")]),
    dict(name="c19-monitor-ignores-exit-code-1", props=["C19"], edits=[(HP, """            elif p.exitcode != 0:""", """            elif p.exitcode < 0 or p.exitcode > 1:""")]),
]
