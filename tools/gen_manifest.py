#!/usr/bin/env python3
"""Regenerates MANIFEST.json from the table below (kept next to the checks so the two
cannot drift).  Run:  python3 tools/gen_manifest.py"""
import json
import os

ROOT = os.path.dirname(os.path.dirname(os.path.abspath(__file__)))

# id -> (technique, level text, level note, design ref)
CHECKS = {
    "C11": (
        "differential testing against reference hashes (Hypothesis inputs + exhaustive length sweep + second interpreter)",
        "Every generated (bytes, seed) is hashed by the three public functions through six deliveries and compared with "
        "independent pure-Python implementations of the published algorithms; lengths 0..264 are swept exhaustively for "
        "five byte patterns and six boundary seeds; zero-filled keys of 4 GiB and more are compared with the reference's closed form. Exploration is the right level: the input space is unbounded, the oracle is exact.",
        "Trusts the pure-Python references (anchored to 39 published vectors at start-up; an anchor failure is a harness error).",
        "7/C11",
    ),
}

CHECKS.update({
    "C01": (
        "stateful property-based testing (Hypothesis rule-based machine) against a multiset reference model + exhaustive short-history enumeration",
        "Random histories over 4 sketches (adds with boundary multiplicities, list/dict/ngram updates, merges in any tree, save/load) are "
        "checked after every step against both bounds computed from a multiset model and a probe-derived cell map; all histories up to "
        "length 4 (quick) / 5 (thorough) over a 3-key alphabet are enumerated for 4 shapes. Exploration: histories are unbounded, the oracle is exact.",
        "Trusts the multiset model and that one add to an empty probe sketch reveals the counter a key owns per row.",
        "7/C01",
    ),
    "C02": (
        "stateful property-based testing against a set model with an independent reference hash + exhaustive orderings/partitions/merge trees",
        "After every step of random histories over 5 sketches the registers must equal those of a fresh sketch fed the distinct keys once and "
        "those of an independent register model; keys are constructed (hash preimages) to share registers with ranks up to 64-p+1. All "
        "orderings x 2-way partitions x merge directions of small key sets and all 4-leaf merge-tree shapes are enumerated.",
        "Trusts the pure-Python FastHash64 reference (anchored to published vectors) and its one-block inverse.",
        "7/C02",
    ),
})

CHECKS.update({
    "C03": (
        "stateful property-based testing against a multiset model keyed by truncated byte strings",
        "Random histories over 4 heavy-hitter sketches with NUL-alias / all-NUL / over-long keys, boundary multiplicities, merges and save/load; "
        "after every step every reported (key,count) and every hh[key] is compared with the key's true multiplicity.",
        "Trusts the multiset model (key identity = first max_key_len bytes as a byte string).",
        "7/C03",
    ),
    "C04": (
        "stateful property-based testing against a dominance bound from a multiset model + exhaustive width-1 enumeration",
        "After every step every key whose Boyer-Moore potential bound max_r(2f-W_r) is positive must be reported with at least that count "
        "(lookup and query under 4 thresholds), a majority key must be first; asserted only while no counter can have saturated. All "
        "sequences of <= 4 (quick) / 6 (thorough) weighted items with every prefix split and merge direction are enumerated at width 1.",
        "Trusts the potential argument of DESIGN 7/C04 and the probe-derived cell map.",
        "7/C04",
    ),
    "C07": (
        "statistical property-based testing with calibrated finite-sample envelopes + exact linear-counting oracle for small n",
        "Sketches for every p in 7..16 and S seeds are filled incrementally and queried on a log grid incl. both regime boundaries; small-n "
        "cells are decided exactly (deterministic upper bound, reference-hash occupancy), the others by a 10-sigma per-estimate bound and a "
        "bound on the mean over seeds. Inputs are a pure function of VERIF_SEED.",
        "Envelope constants calibrated on the pinned tree (DESIGN 7/C07); false-alarm probability per run far below 1e-9.",
        "7/C07",
    ),
    "C13": (
        "stateful property-based testing with a freshly loaded copy as freshness oracle",
        "Random histories interleave state changes with queries under varying k and thresholds (repeat / change / walk patterns); each answer "
        "is taken before any helper call and compared with the reloaded copy's answer, hh[key], the threshold, k-truncation and ordering rules.",
        "Trusts save/load (checked by C10) to produce an equivalent sketch without a stale cache.",
        "7/C13",
    ),
    "C17": (
        "differential testing of query() against an independent model of the HLL++ estimator on generated and boundary register arrays",
        "Register arrays (real, simulated, synthetic, and arrays constructed to sit on either side of threshold[p] and of 5m) are assigned "
        "directly; query() must equal the numpy/integer model to 1e-9 relative; table facts are asserted for every p.",
        "Trusts the model of the estimator as stated in the property; the shipped tables are data.",
        "7/C17",
    ),
})

CHECKS.update({
    "C05": (
        "stateful property-based testing with before/after snapshots per add (metamorphic step invariant) + exhaustive short histories",
        "Every add step of random histories over all three counter types (log draws planted arbitrarily) is observed through the table, "
        "n_added and the estimates of every universe key; exact post-conditions for the added key, monotonicity and the conservative-update "
        "bound for all other keys, and the one-cell-per-row diff are asserted. All histories of length <= 2 (quick) / 3 (thorough) are enumerated for two shapes.",
        "Trusts the probe-derived cell map; log draws are planted through the documented rand_nums/rand_ptr attributes.",
        "7/C05",
    ),
    "C06": (
        "exhaustive counter x configuration x boundary-draw enumeration, exact replay of the generator stream, DKW test against the exact Markov chain, stateful lower-bound machine",
        "The advance rule is decided exactly for every enumerated counter of every grid configuration with draws planted on either side of "
        "the decision boundary; freshness of the draws is decided by comparing every observed batch with the next unused slice of Numba's "
        "generator stream; the law of the counter after N adds is compared with the exact chain (finite-sample DKW band); the lower bound is "
        "checked on random histories with adversarial draws.",
        "Trusts the Python model of the update law and Numba's generator being seeded through a jitted np.random.seed; statistical parts use delta=1e-10 per comparison.",
        "7/C06",
    ),
    "C09": (
        "exhaustive / sampled counter-pair enumeration with a vectorised reference decode (differential), Hypothesis small odd shapes",
        "Tables are assigned directly so that one merge covers all 65 536 log8 pairs (every grid configuration), every log16 counter against "
        "empty/itself, >= 10^6 sampled log16 pairs per configuration, all 2^32 pairs of the default log16 configuration in the thorough tier, "
        "and boundary-biased small odd shapes for all kinds; each merged cell is compared with the documented rule.",
        "Trusts the own decode computed from the public base; ties and the max_count switch get an explicit 1e-9 dead band.",
        "7/C09",
    ),
    "C18": (
        "configuration-grid enumeration + Hypothesis-drawn configurations + stateful property-based testing at the ceiling",
        "Every grid configuration must either be rejected with ValueError or decode its ceiling to max_count; histories whose adds and merges land "
        "within 3 of the ceiling (linear, heavy hitters, small-max_count log sketches with planted draws) are checked for monotone estimates, "
        "sticky ceilings and exact heavy-hitter counts of keys that are alone in a cell.",
        "1e-6 relative tolerance on the decoded ceiling (the repository's own test tolerance).",
        "7/C18",
    ),
})

CHECKS.update({
    "C10": (
        "round-trip property-based testing (save -> load -> compare -> continue -> save chains) + deterministic cross-type loader matrix",
        "Generated configurations and histories for all five classes are saved and reloaded through the class loaders and countmin.load, with and "
        "without shared memory; parameters, full state, bookkeeping and queries must be equal, a second copy must merge with the original, and "
        "original and copy must stay equal under a common continuation (same planted draws). All 6 ordered cross-type loads must be rejected.",
        "Trusts equality of the documented public attributes as the meaning of 'reproduces the sketch'.",
        "7/C10",
    ),
    "C12": (
        "differential property-based testing: compound call vs per-item loop vs loop of unit adds on three equal sketches",
        "For every class, generated compound calls (list, dict with multiplicities, add with multiplicity, ngram, ngram list) are compared for full "
        "state equality with the documented expansions, after a common pre-history and again after a common continuation; log types run under an identical planted draw batch.",
        "Trusts the expansions stated in the property (windows of length n, or the key itself when len <= n).",
        "7/C12",
    ),
    "C15": (
        "enumeration of one-parameter-difference configuration families (all ordered pairs) + Hypothesis-drawn configuration pairs",
        "Every ordered pair of configurations in each family is merged with both operands non-empty; incompatible pairs must raise TypeError and leave "
        "both operands bit-for-bit unchanged, compatible ones (incl. different phi, CountMin()-built, loaded) must merge.",
        "Trusts the list of merge parameters given in the property.",
        "7/C15",
    ),
})

CHECKS.update({
    "C16": (
        "differential property-based testing: shared-memory owner + attached views vs an in-memory twin under generated operation sequences and deletion orders",
        "Generated shapes with unaligned byte sizes; every step is routed to the owner or a view and mirrored on a twin; all handles must agree "
        "with the twin on state and on queries asked through every handle; /dev/shm is inspected after dropping views and the owner (both orders).",
        "sleep() in __del__ is a no-op except in a fixed number of real-sleep cases; only segments created by the case are ever removed.",
        "7/C16",
    ),
    "C20": (
        "fault enumeration: every prefix length of every generated saved file is loaded through every loader",
        "Crash points of save() are the strict prefixes of the written file; all of them are enumerated for each class, several shapes and "
        "loaders (also in an interpreter started with -O); files of 1 MB and more are cut at the last 4096 lengths, around member boundaries and at drawn lengths; "
        "every one must raise, and the complete file must load to the saved sketch.",
        "Assumes a crash leaves a prefix of the final file; crafted table contents embedding a foreign archive are out of scope.",
        "7/C20",
    ),
})

CHECKS.update({
    "C14": (
        "statistical property-based testing with exact Binomial acceptance intervals (joint column histograms) + the documented depth bound on Zipf streams",
        "Seed-derived Zipf streams must keep the number of keys beyond true+e*N/width within floor(K*exp(-depth)); for 20000 random keys the joint "
        "histogram of the probe-derived columns of every row pair, for all count-min types and heavy hitters, must lie cell by cell inside exact Binomial "
        "intervals at level 1e-14 per test.",
        "Keys are i.i.d. random byte strings; false-alarm budget < 1e-9 per run.",
        "7/C14",
    ),
})

CHECKS.update({
    "C08": (
        "systematic schedule enumeration against the real worker/merge code under a synchronous process context + Hypothesis cases + real spawned runs, differential against the sequential result",
        "Every (assignment, per-worker order) of up to 4 items over 3 workers (quick) / 6 items over 4 workers (thorough) is executed through the real "
        "parallel_add code with an in-memory queue and synchronous processes (arguments pickled, real shared memory); worker counts 5..9, all 15 sketch "
        "combinations, list/tuple/generator inputs and falsy items are covered; each result is compared with the sequential sketch and the C01/C03/C04/C06 bounds.",
        "Completeness of the schedule space rests on workers owning their sketches and merging after all workers stopped (DESIGN 5.4); real OS scheduling is only sampled.",
        "7/C08",
    ),
    "C19": (
        "fault enumeration: every marking of items as ok / raise-before / raise-after and every worker death point, over enumerated schedules, in-process; real os._exit and raising runs",
        "All 3^n fault markings (n=3 exhaustively with all schedules, n=4,5 with sampled schedules) and every (schedule, victim item) worker death are "
        "injected into the real worker loop; a raising callback must leave exactly the other items' contributions with n_records counting successful items "
        "only; a dead worker must make parallel_add raise within bounded polling.",
        "In-process death = uncaught BaseException giving a non-zero exit status; real runs confirm with os._exit(3). Faults in the merge phase are outside the property.",
        "7/C19",
    ),
})

NOT_YET = {}


def main():
    props = [json.loads(l) for l in open(os.path.join(ROOT, "properties.jsonl")) if l.strip()]
    checks = []
    na = []
    for p in props:
        pid = p["id"]
        if pid in CHECKS:
            tech, text, note, ref = CHECKS[pid]
            cat = "fault_enumeration" if pid in ("C19", "C20") else "exploration"
            checks.append(
                {
                    "property_id": pid,
                    "quick_cmd": f"./check {pid} --tier quick",
                    "thorough_cmd": f"./check {pid} --tier thorough",
                    "evidence_file": f"evidence/{pid}.json",
                    "replay_cmd_template": f"./check {pid} --replay {{path}}",
                    "engine": "vf",
                    "level_claimed": {"category": cat, "text": text, "design_ref": f"DESIGN.md section {ref}"},
                    "level_note": note,
                    "technique": tech,
                }
            )
        else:
            na.append({"property_id": pid, "reason": NOT_YET.get(pid, "check not built yet in this round (property-based check designed in DESIGN.md section 7; not claimed until the check exists and is quiet on the unchanged tree)")})
    man = {
        "version": 1,
        "setup_cmd": "/venv/bin/python -c 'import hypothesis' 2>/dev/null || /venv/bin/pip install --no-index --find-links /opt/veriftools/wheels hypothesis; mkdir -p evidence replays",
        "hooks": {
            "guard": "SKETCHNU_VERIF",
            "enable": "no source hooks exist: checks import sketchnu from /repo's working tree (PYTHONPATH) and monkeypatch only from the test side",
            "baseline_off_cmd": "cd /repo && /venv/bin/python -m pytest -ra -q -p no:cacheprovider --timeout=900 --continue-on-collection-errors",
            "source_commits": [],
            "add_only": True,
        },
        "engines": [
            {
                "name": "vf",
                "path": "vf/",
                "serves_properties": [c["property_id"] for c in checks],
                "kind_free_text": "Hypothesis (stateful machines and @given), exhaustive enumeration over finite sub-spaces, fault injection; explicit oracles (reference models, differential, metamorphic, history invariants); one runner ./check",
            }
        ],
        "checks": checks,
        "notes": "All checks: ./check <ID> --tier quick|thorough; exit 0 held / 1 VIOLATION / 2 harness error. VERIF_SEED selects the generated cases. VERIF_REPO overrides the repository path (used for sensitivity runs against scratch worktrees). Fixed defects are listed in KNOWN_FINDINGS.txt (fixed: entries suppress nothing).",
        "not_applicable": na,
    }
    with open(os.path.join(ROOT, "MANIFEST.json"), "w") as f:
        json.dump(man, f, indent=1)
        f.write("\n")
    print(f"{len(checks)} checks, {len(na)} not claimed")


if __name__ == "__main__":
    main()
