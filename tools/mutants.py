#!/usr/bin/env python3
"""Sensitivity runner: applies hand-written mutants (string replacements) and the seeded
changes under seeded/*/patch.diff to scratch worktrees of /repo (never to /repo itself),
runs the named checks against them with VERIF_REPO, and reports killed / survived.

  python3 tools/mutants.py [--only C01,C11] [--name substr] [--tier quick] [-j 3] [--seeded]
Scratch worktrees live under /tmp/vf_mut_* and are removed after each run.
"""
import argparse
import concurrent.futures as cf
import glob
import json
import os
import subprocess
import sys
import time

ROOT = os.path.dirname(os.path.dirname(os.path.abspath(__file__)))
sys.path.insert(0, ROOT)
from mutants_table import MUTANTS  # noqa


def sh(cmd, **kw):
    return subprocess.run(cmd, shell=True, capture_output=True, text=True, **kw)


def run_one(m, tier, idx):
    wt = f"/tmp/vf_mut_{os.getpid()}_{idx}"
    sh(f"git -C /repo worktree remove --force {wt}")
    r = sh(f"git -C /repo worktree add -q --detach {wt} HEAD")
    if r.returncode:
        return m, {"error": r.stderr}
    try:
        if "patch" in m:
            r = sh(f"git -C {wt} apply {m['patch']}")
            if r.returncode:  # the patch was written against an older HEAD: fall back to a 3-way merge
                r = sh(f"git -C {wt} apply --3way {m['patch']}")
            if r.returncode:
                return m, {"error": "patch does not apply: " + r.stderr}
        else:
            for path, old, new in m["edits"]:
                p = os.path.join(wt, path)
                s = open(p).read()
                if s.count(old) < 1:
                    return m, {"error": f"pattern not found in {path}: {old[:60]!r}"}
                if m.get("all"):
                    s = s.replace(old, new)
                else:
                    if s.count(old) != 1:
                        return m, {"error": f"pattern occurs {s.count(old)} times in {path}: {old[:60]!r}"}
                    s = s.replace(old, new)
                open(p, "w").write(s)
        res = {}
        for pid in m["props"]:
            if not os.path.exists(os.path.join(ROOT, "vf", pid.lower() + ".py")):
                continue
            t0 = time.time()
            env = dict(os.environ, VERIF_REPO=wt, VERIF_EVIDENCE_DIR=f"/tmp/vf_mut_ev_{os.getpid()}_{idx}")
            r = subprocess.run([os.path.join(ROOT, "check"), pid, "--tier", tier], capture_output=True, text=True, env=env, cwd=ROOT)
            msg = ""
            for line in r.stdout.splitlines():
                if line.startswith("  ") and not msg:
                    msg = line.strip()[:160]
            res[pid] = {"rc": r.returncode, "s": round(time.time() - t0, 1), "msg": msg, "tail": (r.stdout + r.stderr)[-600:] if r.returncode == 2 else ""}
        return m, res
    finally:
        sh(f"git -C /repo worktree remove --force {wt}")
        sh(f"rm -rf /tmp/vf_mut_ev_{os.getpid()}_{idx}")


def main():
    ap = argparse.ArgumentParser()
    ap.add_argument("--only", default="")
    ap.add_argument("--name", default="")
    ap.add_argument("--tier", default="quick")
    ap.add_argument("-j", type=int, default=3)
    ap.add_argument("--seeded", action="store_true", help="also run seeded/*/patch.diff against the properties in their meta.json")
    ap.add_argument("--seeded-only", action="store_true")
    ap.add_argument("--patch", default="", help="ad-hoc: a patch file to apply; use with --props")
    ap.add_argument("--props", default="")
    ap.add_argument("--out", default="", help="write a markdown table of the results to this file")
    a = ap.parse_args()
    only = set(x for x in a.only.split(",") if x)
    ms = []
    if not a.seeded_only:
        for m in MUTANTS:
            props = [p for p in m["props"] if not only or p in only]
            if props and a.name in m["name"]:
                ms.append(dict(m, props=props))
    if a.seeded or a.seeded_only:
        for meta in sorted(glob.glob(os.path.join(ROOT, "seeded", "*", "meta.json"))):
            d = json.load(open(meta))
            props = [p for p in d.get("checks", [d["property"]]) if not only or p in only]
            name = "seeded/" + os.path.basename(os.path.dirname(meta))
            if props and a.name in name:
                ms.append({"name": name, "props": props, "patch": os.path.join(os.path.dirname(meta), "patch.diff")})
    if a.patch:
        ms = [{"name": "patch:" + a.patch, "props": a.props.split(","), "patch": a.patch}]
    print(f"{len(ms)} mutants")
    surv = 0
    rows = []
    with cf.ThreadPoolExecutor(a.j) as ex:
        futs = [ex.submit(run_one, m, a.tier, i) for i, m in enumerate(ms)]
        for f in cf.as_completed(futs):
            m, res = f.result()
            if "error" in res:
                print(f"ERROR   {m['name']}: {res['error']}")
                continue
            for pid, r in res.items():
                tag = {0: "SURVIVED", 1: "killed  ", 2: "HARNESS-ERR"}.get(r["rc"], f"rc={r['rc']}")
                if r["rc"] != 1:
                    surv += 1
                print(f"{tag} {pid} {m['name']} ({r['s']}s) {r['msg']}{r['tail']}")
                rows.append((m["name"], pid, tag.strip(), r["s"], r["msg"].replace("|", "/")[:140]))
            sys.stdout.flush()
    print(f"not killed: {surv}")
    if a.out:
        rows.sort()
        with open(a.out, "w") as f:
            f.write(f"# Sensitivity results ({a.tier} tier), generated by tools/mutants.py\n\n")
            f.write("Each row: a change applied to a scratch worktree of /repo HEAD, the check run against it with VERIF_REPO, and the outcome.\n\n")
            f.write("| change | check | outcome | s | first reported violation |\n|---|---|---|---|---|\n")
            for r in rows:
                f.write(f"| {r[0]} | {r[1]} | {r[2]} | {r[3]} | {r[4]} |\n")


if __name__ == "__main__":
    main()
