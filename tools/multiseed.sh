#!/bin/bash
# quietness on the unchanged tree at several seeds: tools/multiseed.sh "2 3 5" [tier] [ids...]
cd "$(dirname "$0")/.." || exit 2
seeds="${1:-2 3 5}"; tier="${2:-quick}"; shift 2 2>/dev/null
ids="${*:-C01 C02 C03 C04 C05 C06 C07 C08 C09 C10 C11 C12 C13 C14 C15 C16 C17 C18 C19 C20}"
out=/tmp/vf_multiseed_ev_$$
for s in $seeds; do for c in $ids; do
  r=$(VERIF_SEED=$s VERIF_EVIDENCE_DIR=$out ./check $c --tier $tier 2>&1 | grep -E "^C[0-9]+ tier|VIOLATION|HARNESS-ERROR|KNOWN" | tr '\n' ' ')
  echo "seed=$s $r"
done; done
rm -rf $out
