#!/usr/bin/env python3
"""Confirm a seeded change produced by a sub-agent and, if it checks out, file it under
seeded/<name>/ (patch.diff, demo.py, notes.md, meta.json).

  python3 tools/confirm_seeded.py <dir with patch.diff+demo.py> <name> <property> "<needs>"

Confirmation = in a fresh scratch worktree of /repo HEAD (removed afterwards):
  demo exits 0 unpatched; patch applies; demo exits non-zero patched; the repository's full
  test suite passes patched (51 passed).
"""
import json
import os
import shutil
import subprocess
import sys
import time

ROOT = os.path.dirname(os.path.dirname(os.path.abspath(__file__)))


def sh(cmd, **kw):
    return subprocess.run(cmd, shell=True, capture_output=True, text=True, **kw)


def main():
    src, name, prop, needs = sys.argv[1:5]
    skip_tests = len(sys.argv) > 5 and sys.argv[5] == "--skip-tests"
    wt = f"/tmp/vf_conf_{name}"
    sh(f"git -C /repo worktree remove --force {wt}")
    r = sh(f"git -C /repo worktree add -q --detach {wt} HEAD")
    assert r.returncode == 0, r.stderr
    res = {"property": prop, "needs": needs, "ran": []}
    try:
        env = dict(os.environ, NUMBA_THREADING_LAYER="workqueue", PYTHONPATH=wt, PYTHONDONTWRITEBYTECODE="1")
        demo = os.path.join(src, "demo.py")
        txt = open(demo).read()
        # demos were written against the agent's own worktree path; point them at ours
        for old in [f"/tmp/mut7_{prop}", f"/tmp/mut6_{prop}", f"/tmp/mut5_{prop}", f"/tmp/mut4_{prop}", f"/tmp/mut3_{prop}", f"/tmp/mut2_{prop}", f"/tmp/mut_{prop}"]:
            txt = txt.replace(old + "/", wt + "/").replace(f'"{old}"', f'"{wt}"').replace(f"'{old}'", f"'{wt}'")
        demo_local = os.path.join(wt, "_demo.py")
        open(demo_local, "w").write(txt)
        t = time.time()
        r0 = subprocess.run(["/venv/bin/python", "-W", "ignore", demo_local], cwd=wt, env=env, capture_output=True, text=True, timeout=1800)
        res["ran"].append(f"demo on unchanged HEAD: exit {r0.returncode} ({time.time()-t:.0f}s)")
        r = sh(f"git -C {wt} apply {os.path.join(src, 'patch.diff')}")
        if r.returncode:
            r = sh(f"git -C {wt} apply --3way {os.path.join(src, 'patch.diff')}")
        res["ran"].append(f"git apply patch.diff: exit {r.returncode}")
        assert r.returncode == 0, r.stderr
        t = time.time()
        r1 = subprocess.run(["/venv/bin/python", "-W", "ignore", demo_local], cwd=wt, env=env, capture_output=True, text=True, timeout=1800)
        res["ran"].append(f"demo with patch: exit {r1.returncode} ({time.time()-t:.0f}s): {(r1.stderr or r1.stdout).strip().splitlines()[-1][:200] if (r1.stderr or r1.stdout).strip() else ''}")
        os.unlink(demo_local)
        ok = r0.returncode == 0 and r1.returncode != 0
        if ok and not skip_tests:
            t = time.time()
            rt = subprocess.run("/venv/bin/python -m pytest -q -p no:cacheprovider --timeout=900 tests 2>&1 | grep -E \"^(FAILED|ERROR)|passed|failed\" | tail -4 | tr \"\\n\" \" \"", shell=True, cwd=wt, capture_output=True, text=True, env=dict(os.environ, PYTHONDONTWRITEBYTECODE="1"))
            line = rt.stdout.strip()
            res["ran"].append(f"pytest with patch: {line}")
            ok = ok and "51 passed" in line and "failed" not in line
        res["confirmed"] = ok
        print(json.dumps(res, indent=1))
        if ok:
            dst = os.path.join(ROOT, "seeded", name)
            os.makedirs(dst, exist_ok=True)
            shutil.copy(os.path.join(src, "patch.diff"), dst)
            shutil.copy(demo, dst)
            if os.path.exists(os.path.join(src, "notes.md")):
                shutil.copy(os.path.join(src, "notes.md"), dst)
            meta = {"property": prop, "breaks": prop, "needs_to_manifest": needs, "what_was_run": res["ran"], "checks": [prop], "demo_note": f"demo.py was written for worktree /tmp/mut_{prop}; run it with PYTHONPATH=<worktree> after replacing that path"}
            json.dump(meta, open(os.path.join(dst, "meta.json"), "w"), indent=1)
    finally:
        sh(f"git -C /repo worktree remove --force {wt}")


if __name__ == "__main__":
    main()
