#!/usr/bin/env python3
"""Replay self-test on seeded changes: run the check against the change (scratch worktree), then replay the first two
replay files on the changed tree (want exit 1) and on /repo (want exit 0).  Complements tools/replay_selftest.py
(hand-written mutants) for the case shapes added in rounds 4-6."""
import subprocess, glob, os, sys, json, concurrent.futures as cf
ROOT="/verif"
pairs=[("C20-R4B","C20"),("C20-R4A","C20"),("C20-R6A","C20"),("C11-R4A","C11"),("C06-R5A","C06"),("C06-R5B","C06"),("C13-R5A","C13"),("C13-R4A","C13"),("C16-R5A","C16"),("C16-R6A","C16"),("C19-R6B","C19"),("C12-R4B","C12"),("C10-R5B","C10"),("C10-R6A","C10"),("C08-R6A","C08"),("C08-R5B","C08"),("C01-R4B","C01"),("C09-R5A","C01")]
def one(t):
    pre,pid=t
    d=glob.glob(f"{ROOT}/seeded/{pre}-*")[0]; name=os.path.basename(d)
    wt=f"/tmp/vf_rr_{pre}"; ev=f"/tmp/vf_rr_ev_{pre}"
    subprocess.run(f"git -C /repo worktree remove --force {wt}; rm -rf {ev}; git -C /repo worktree add -q --detach {wt} HEAD && git -C {wt} apply {d}/patch.diff", shell=True, capture_output=True)
    env=dict(os.environ, VERIF_REPO=wt, VERIF_EVIDENCE_DIR=ev)
    r=subprocess.run([f"{ROOT}/check", pid, "--tier", "quick"], capture_output=True, text=True, env=env, cwd=ROOT)
    files=sorted(glob.glob(f"{ev}/replays/*.json"))
    out=[f"{pid} {name}: check rc={r.returncode}, {len(files)} replay files"]
    for f in files[:2]:
        a=subprocess.run([f"{ROOT}/check", pid, "--replay", f], capture_output=True, text=True, env=env, cwd=ROOT).returncode
        env2=dict(os.environ, VERIF_EVIDENCE_DIR=ev)
        b=subprocess.run([f"{ROOT}/check", pid, "--replay", f], capture_output=True, text=True, env=env2, cwd=ROOT).returncode
        out.append(f"   {os.path.basename(f)}: replay on mutant rc={a} (want 1), on /repo rc={b} (want 0) {'OK' if (a,b)==(1,0) else 'PROBLEM'}")
    subprocess.run(f"git -C /repo worktree remove --force {wt}; rm -rf {ev}", shell=True, capture_output=True)
    return "\n".join(out)
with cf.ThreadPoolExecutor(3) as ex:
    for o in ex.map(one, pairs): print(o, flush=True)
