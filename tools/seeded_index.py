#!/usr/bin/env python3
"""Regenerates seeded/INDEX.md from the meta.json files."""
import glob, json, os
ROOT = os.path.dirname(os.path.dirname(os.path.abspath(__file__)))
rows = []
for m in sorted(glob.glob(os.path.join(ROOT, "seeded", "*", "meta.json"))):
    d = json.load(open(m))
    rows.append((os.path.basename(os.path.dirname(m)), d["property"], d.get("round", 1), ", ".join(d.get("checks", [])), d["needs_to_manifest"].replace("|", "/")))
with open(os.path.join(ROOT, "seeded", "INDEX.md"), "w") as f:
    f.write("# Seeded changes (each: patch.diff, demo.py, notes.md, meta.json)\n\n")
    f.write("Written by sub-agents that saw only the property text and a scratch worktree; confirmed by tools/confirm_seeded.py\n")
    f.write("(demo passes on HEAD, fails with the patch, the repository's 51 tests pass with the patch). `checks` = checks observed to report the change.\n\n")
    f.write("| change | property | round | reported by | needs, to manifest |\n|---|---|---|---|---|\n")
    for r in rows:
        f.write(f"| {r[0]} | {r[1]} | {r[2]} | {r[3]} | {r[4]} |\n")
print(len(rows), "seeded changes")
