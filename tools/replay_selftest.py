#!/usr/bin/env python3
"""For a few (mutant, check) pairs: run the check against the mutated scratch worktree, then
replay every written replay file against the mutant (must exit 1) and against /repo (must exit 0)."""
import glob, os, subprocess, sys
ROOT = os.path.dirname(os.path.dirname(os.path.abspath(__file__)))
sys.path.insert(0, ROOT)
from mutants_table import MUTANTS

PAIRS = [("c01-merge-max", "C01"), ("c02-rank-cap-32", "C02"), ("hh-revert-f1-maxcount", "C03"), ("hh-candidates-row0-only", "C04"), ("c05-plain-update-log8", "C05"),
         ("c06-prob-exponent-plus-1", "C06"), ("c17-alpha-p16", "C07"), ("c08-merge-drops-carried-odd-sketch", "C08"), ("c09-log16-always-round-down", "C09"),
         ("c10-hh-load-skips-key-lens", "C10"), ("c11-fh64-tail7-skip", "C11"), ("c01-dict-ignores-values", "C12"), ("hh-cache-ignores-n-added", "C13"),
         ("c14-log8-seed-row-div-2", "C14"), ("c15-hll-no-seed-check", "C15"), ("c16-hll-view-unlinks-on-del", "C16"), ("c17-5m-to-4m", "C17"),
         ("c01-drop-linear-cap", "C18"), ("c19-failed-item-counts-previous-n-recs", "C19"), ("c20-hll-load-falls-back-to-empty", "C20")]
only = set(sys.argv[1:])
bad = 0
for name, pid in PAIRS:
    if only and pid not in only:
        continue
    m = next(x for x in MUTANTS if x["name"] == name)
    wt, ev = f"/tmp/vf_rs_{pid}", f"/tmp/vf_rs_ev_{pid}"
    subprocess.run(f"git -C /repo worktree remove --force {wt}; rm -rf {ev}; git -C /repo worktree add -q --detach {wt} HEAD", shell=True, capture_output=True)
    try:
        for path, old, new in m["edits"]:
            p = os.path.join(wt, path); s = open(p).read(); assert old in s; open(p, "w").write(s.replace(old, new))
        env = dict(os.environ, VERIF_REPO=wt, VERIF_EVIDENCE_DIR=ev)
        r = subprocess.run([f"{ROOT}/check", pid, "--tier", "quick"], capture_output=True, text=True, env=env, cwd=ROOT)
        files = sorted(glob.glob(f"{ev}/replays/*.json"))
        print(f"{pid} {name}: check rc={r.returncode}, {len(files)} replay files")
        for f in files[:2]:
            a = subprocess.run([f"{ROOT}/check", pid, "--replay", f], capture_output=True, text=True, env=env, cwd=ROOT).returncode
            b = subprocess.run([f"{ROOT}/check", pid, "--replay", f], capture_output=True, text=True, env=dict(os.environ, VERIF_EVIDENCE_DIR=ev), cwd=ROOT).returncode
            ok = a == 1 and b == 0
            bad += not ok
            print(f"   {os.path.basename(f)}: replay on mutant rc={a} (want 1), on /repo rc={b} (want 0) {'OK' if ok else 'PROBLEM'}")
    finally:
        subprocess.run(f"git -C /repo worktree remove --force {wt}; rm -rf {ev}", shell=True, capture_output=True)
print("problems:", bad)
